/* C12 driver (stanza stream): a line is a program of public stanza API calls over numbered slots
   that hold the user's references; the mirror of `step` / `run` in coq/Model/StanzaHeapModel.v.

   input : ops separated by ';', arguments by single spaces, byte strings in hex ("-" = empty / absent)
     new k | clone k j | copy k j | release k | addchild p c clone | addchild p c transfer
     setname k <hex> | settext k <hex> | setattr k <hexkey> <hexval> | setns k <hex> | delattr k <hexkey>
     totext k | walk k | child k i j | reply k j | replyerr k j <hextype> <hexcond> <hextext or ->
     allocfail n     (the n-th allocation request from here on returns NULL, once)
   output: for every step "<out>@<live>" (live = stanza objects alive after the step), separated by spaces
     H1 / H0 (handle non-NULL / NULL)   R<rc>   T:<hex> / TE<rc>   W<up>,<down>   BAD
     (allocfail prints nothing; " ALLOCERR" follows a step in which the library freed a pointer the allocator
     does not know - a double free or a wild free)
   then every slot still held is released in ascending order and " END live=<n> blocks=<m>" is appended
   (m = all blocks the library still holds, the context's own blocks excluded).

   The allocator keeps a table of the live blocks; a stanza object is a live block of sizeof(xmpp_stanza_t)
   bytes (the generators keep every string shorter than 60 bytes, hash.c's blocks are 24/32/40/64 bytes).
   Fresh blocks are filled with 0xA5, freed blocks with 0xDD before the real free (ASan then traps any use). */
#include "vharness.h"
#include "common.h"

#define MAXSLOT 64

/* ---------------------------------------------------------------- tracking allocator */
typedef struct { void *p; size_t n; } blk_t;
static blk_t *blks = NULL;
static size_t nblk = 0, capblk = 0;
static long live_stanza_blocks = 0;
static long allocerr = 0;
static long fail_at = 0;   /* 0 = off; counts down on every allocation request */

static long blk_find(void *p)
{
    size_t i;
    for (i = nblk; i > 0; i--)
        if (blks[i - 1].p == p) return (long)(i - 1);
    return -1;
}
static void blk_add(void *p, size_t n)
{
    if (nblk == capblk) {
        capblk = capblk ? capblk * 2 : 256;
        blks = realloc(blks, capblk * sizeof(blk_t));
        if (!blks) abort();
    }
    blks[nblk].p = p; blks[nblk].n = n; nblk++;
    if (n == sizeof(xmpp_stanza_t)) live_stanza_blocks++;
}
static void blk_del(long i)
{
    if (blks[i].n == sizeof(xmpp_stanza_t)) live_stanza_blocks--;
    blks[i] = blks[nblk - 1];
    nblk--;
}
static int must_fail(void)
{
    if (fail_at > 0 && --fail_at == 0) return 1;
    return 0;
}
static void *t_alloc(size_t size, void *ud)
{
    void *p;
    (void)ud;
    if (must_fail()) return NULL;
    p = malloc(size ? size : 1);
    if (!p) abort();
    memset(p, 0xA5, size);
    blk_add(p, size);
    return p;
}
static void t_free(void *p, void *ud)
{
    long i;
    (void)ud;
    if (!p) return;
    i = blk_find(p);
    if (i < 0) { allocerr++; return; }      /* unknown pointer: counted, not passed on */
    memset(p, 0xDD, blks[i].n);
    blk_del(i);
    free(p);
}
static void *t_realloc(void *p, size_t size, void *ud)
{
    long i;
    void *q;
    size_t old;
    if (!p) return t_alloc(size, ud);
    if (size == 0) { t_free(p, ud); return NULL; }
    i = blk_find(p);
    if (i < 0) { allocerr++; return NULL; }
    if (must_fail()) return NULL;            /* the old block stays valid, as with realloc(3) */
    old = blks[i].n;
    q = malloc(size);
    if (!q) abort();
    memset(q, 0xA5, size);
    memcpy(q, p, old < size ? old : size);
    memset(p, 0xDD, old);
    blk_del(i);
    free(p);
    blk_add(q, size);
    return q;
}
static xmpp_mem_t t_mem = {t_alloc, t_free, t_realloc, NULL};

/* ---------------------------------------------------------------- helpers */
static xmpp_stanza_t *slots[MAXSLOT];
static long base_blocks, base_stanzas;

static long live_now(void) { return live_stanza_blocks - base_stanzas; }

static char *unhex_str(const char *s)
{
    size_t n; unsigned char *b; char *r;
    b = vh_unhex(s, &n);
    r = malloc(n + 1);
    memcpy(r, b, n); r[n] = 0;
    free(b);
    return r;
}

/* number of stanzas reachable below (and including) s over get_children / get_next only */
static long walk_down(xmpp_stanza_t *s)
{
    long n = 1;
    xmpp_stanza_t *c;
    volatile const char *nm;
    volatile int is_text;
    nm = xmpp_stanza_get_name(s);         /* touches s->type, s->data */
    is_text = xmpp_stanza_is_text(s);
    (void)nm; (void)is_text;
    for (c = xmpp_stanza_get_children(s); c; c = xmpp_stanza_get_next(c))
        n += walk_down(c);
    return n;
}

static int slot_of(const char *f)
{
    char *e; long v;
    if (!f || !*f) return -1;
    v = strtol(f, &e, 10);
    if (*e || v < 0 || v >= MAXSLOT) return -1;
    return (int)v;
}
static xmpp_stanza_t *held(int k) { return k >= 0 ? slots[k] : NULL; }
static int is_free(int k) { return k >= 0 && slots[k] == NULL; }

static int first_tok = 1;
static void tok_begin(void) { if (!first_tok) putchar(' '); first_tok = 0; }
static void tok_end(void) { printf("@%ld", live_now()); }

static void put_handle(int j, xmpp_stanza_t *s)
{
    slots[j] = s;
    fputs(s ? "H1" : "H0", stdout);
}

static void run_op(xmpp_ctx_t *ctx, char *op)
{
    char *f[8]; int nf = 0; char *save = NULL, *p;
    int k, j;
    xmpp_stanza_t *s;
    long err0 = allocerr;

    for (p = strtok_r(op, " ", &save); p && nf < 8; p = strtok_r(NULL, " ", &save)) f[nf++] = p;
    if (nf == 0) return;
    if (!strcmp(f[0], "allocfail")) {
        fail_at = nf > 1 ? atol(f[1]) : 0;
        return;
    }
    tok_begin();
#define BAD do { fputs("BAD", stdout); goto done; } while (0)
    if (!strcmp(f[0], "new") && nf == 2) {
        k = slot_of(f[1]);
        if (!is_free(k)) BAD;
        put_handle(k, xmpp_stanza_new(ctx));
    } else if (!strcmp(f[0], "clone") && nf == 3) {
        k = slot_of(f[1]); j = slot_of(f[2]);
        if (!(s = held(k)) || !is_free(j)) BAD;
        put_handle(j, xmpp_stanza_clone(s));
    } else if (!strcmp(f[0], "copy") && nf == 3) {
        k = slot_of(f[1]); j = slot_of(f[2]);
        if (!(s = held(k)) || !is_free(j)) BAD;
        put_handle(j, xmpp_stanza_copy(s));
    } else if (!strcmp(f[0], "release") && nf == 2) {
        k = slot_of(f[1]);
        if (!(s = held(k))) BAD;
        slots[k] = NULL;
        printf("R%d", xmpp_stanza_release(s));
    } else if (!strcmp(f[0], "addchild") && nf == 4) {
        xmpp_stanza_t *c;
        int do_clone = !strcmp(f[3], "clone");
        k = slot_of(f[1]); j = slot_of(f[2]);
        if (!(s = held(k)) || !(c = held(j)) || (!do_clone && strcmp(f[3], "transfer"))) BAD;
        printf("R%d", xmpp_stanza_add_child_ex(s, c, do_clone));
        if (!do_clone) slots[j] = NULL;
    } else if ((!strcmp(f[0], "setname") || !strcmp(f[0], "settext") || !strcmp(f[0], "setns") ||
                !strcmp(f[0], "delattr")) && nf == 3) {
        char *v; int rc;
        k = slot_of(f[1]);
        if (!(s = held(k))) BAD;
        v = unhex_str(f[2]);
        if (f[0][3] == 'n' && f[0][4] == 'a') rc = xmpp_stanza_set_name(s, v);
        else if (f[0][3] == 't') rc = xmpp_stanza_set_text(s, v);
        else if (f[0][0] == 's') rc = xmpp_stanza_set_ns(s, v);
        else rc = xmpp_stanza_del_attribute(s, v);
        printf("R%d", rc);
        free(v);
    } else if (!strcmp(f[0], "setattr") && nf == 4) {
        char *key, *v;
        k = slot_of(f[1]);
        if (!(s = held(k))) BAD;
        key = unhex_str(f[2]); v = unhex_str(f[3]);
        printf("R%d", xmpp_stanza_set_attribute(s, key, v));
        free(key); free(v);
    } else if (!strcmp(f[0], "totext") && nf == 2) {
        char *buf = NULL; size_t blen = 0; int rc;
        k = slot_of(f[1]);
        if (!(s = held(k))) BAD;
        rc = xmpp_stanza_to_text(s, &buf, &blen);
        if (rc == 0 && buf) {
            fputs("T:", stdout); vh_puthex((unsigned char *)buf, blen);
        } else
            printf("TE%d", rc);
        if (buf) xmpp_free(ctx, buf);
    } else if (!strcmp(f[0], "walk") && nf == 2) {
        int up = 0;
        k = slot_of(f[1]);
        if (!(s = held(k))) BAD;
        if (s->parent) {
            volatile xmpp_stanza_type_t ty = s->parent->type;   /* a dangling parent pointer is caught here */
            (void)ty;
            up = 1;
        }
        printf("W%d,%ld", up, walk_down(s));
    } else if (!strcmp(f[0], "child") && nf == 4) {
        xmpp_stanza_t *c; long i, n;
        k = slot_of(f[1]); j = slot_of(f[3]);
        n = atol(f[2]);
        if (!(s = held(k)) || !is_free(j) || n < 0) BAD;
        c = xmpp_stanza_get_children(s);
        for (i = 0; i < n && c; i++) c = xmpp_stanza_get_next(c);
        put_handle(j, c ? xmpp_stanza_clone(c) : NULL);
    } else if (!strcmp(f[0], "reply") && nf == 3) {
        k = slot_of(f[1]); j = slot_of(f[2]);
        if (!(s = held(k)) || !is_free(j)) BAD;
        put_handle(j, xmpp_stanza_reply(s));
    } else if (!strcmp(f[0], "replyerr") && nf == 6) {
        char *ty, *cond, *text;
        k = slot_of(f[1]); j = slot_of(f[2]);
        if (!(s = held(k)) || !is_free(j)) BAD;
        ty = unhex_str(f[3]); cond = unhex_str(f[4]);
        text = strcmp(f[5], "-") ? unhex_str(f[5]) : NULL;
        put_handle(j, xmpp_stanza_reply_error(s, ty, cond, text));
        free(ty); free(cond); free(text);
    } else if (!strcmp(f[0], "helper") && nf == 3) {
        /* helper <k> <hex arg|->: a public helper that returns an allocated result; the result is given back with
           xmpp_free() as documented.  A block that did not come from the context's allocator shows as ALLOCERR. */
        int k = atoi(f[1]);
        char *arg = strcmp(f[2], "-") ? unhex_str(f[2]) : strdup("");
        size_t alen = strlen(arg);
        char *r = NULL;
        unsigned char *bin = NULL;
        size_t blen = 0;
        tok_begin();
        switch (k) {
        case 0: r = xmpp_base64_encode(ctx, (unsigned char *)arg, alen); break;
        case 1: r = xmpp_base64_decode_str(ctx, arg, alen); break;
        case 2: xmpp_base64_decode_bin(ctx, arg, alen, &bin, &blen); r = (char *)bin; break;
        case 3: r = xmpp_sha1(ctx, (unsigned char *)arg, alen); break;
        case 4: r = xmpp_jid_node(ctx, arg); break;
        case 5: r = xmpp_jid_domain(ctx, arg); break;
        case 6: r = xmpp_jid_resource(ctx, arg); break;
        case 7: r = xmpp_jid_bare(ctx, arg); break;
        case 8: r = xmpp_jid_new(ctx, arg, "example.com", "r"); break;
        case 9: r = xmpp_uuid_gen(ctx); break;
        case 10: r = xmpp_jid_new(ctx, NULL, arg, NULL); break;
        default: break;
        }
        printf("h%d=%s", k, r ? "ok" : "null");
        if (r) xmpp_free(ctx, r);
        free(arg);
    } else
        BAD;
done:
    tok_end();
    if (allocerr != err0) fputs(" ALLOCERR", stdout);
}

int main(void)
{
    char *line;
    while ((line = vh_getline())) {
        xmpp_ctx_t *ctx;
        char *save = NULL, *op;
        int i;
        long err0;
        fail_at = 0;
        allocerr = 0;
        first_tok = 1;
        memset(slots, 0, sizeof(slots));
        base_blocks = 0; base_stanzas = 0;
        ctx = xmpp_ctx_new(&t_mem, NULL);
        if (!ctx) { puts("NOCTX"); fflush(stdout); continue; }
        base_blocks = (long)nblk; base_stanzas = live_stanza_blocks;
        for (op = strtok_r(line, ";", &save); op; op = strtok_r(NULL, ";", &save)) run_op(ctx, op);
        /* the user drops everything it still holds */
        fail_at = 0;
        err0 = allocerr;
        for (i = 0; i < MAXSLOT; i++)
            if (slots[i]) { xmpp_stanza_t *s = slots[i]; slots[i] = NULL; xmpp_stanza_release(s); }
        if (!first_tok) putchar(' ');
        if (allocerr != err0) fputs("ALLOCERR ", stdout);
        printf("END live=%ld blocks=%ld\n", live_now(), (long)nblk - base_blocks);
        fflush(stdout);
        xmpp_ctx_free(ctx);
        /* blocks leaked by this program must not count against the next one */
        while (nblk) { void *p = blks[nblk - 1].p; blk_del((long)nblk - 1); free(p); }
    }
    return 0;
}
