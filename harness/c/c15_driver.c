/* C15 driver: resolver_srv_lookup_buf on an exact-size heap copy of the message, so that ASan
   traps a read one byte past the end (and any write outside a target field, which lives in its
   own heap block).
   input : "<hex of the DNS message>"            ("-" = empty message)
   output: "F <n> <prio>,<weight>,<port>,<hex of target C string or ->;..."   status FOUND
           "N"                                                              status NOT_FOUND, list NULL
   anomalies are made visible instead of being canonicalised away:
           "N list=<n>"        NOT_FOUND but a list was handed out
           "F 0"               FOUND with a NULL list
           target "UNTERMINATED" when no NUL inside the MAX_DOMAIN_LEN field
           " leak=<k>"         appended when allocations made by the call were not all released
                               after resolver_srv_free
           "S <status>"        a status that is neither FOUND nor NOT_FOUND                        */
#include "vharness.h"
#include "common.h"
#include "resolver.h"

int main(void)
{
    char *line;
    xmpp_ctx_t *ctx = xmpp_ctx_new(&vh_mem, NULL);
    while ((line = vh_getline())) {
        size_t len;
        unsigned char *in;
        resolver_srv_rr_t *list = (resolver_srv_rr_t *)1, *rr;
        long live0;
        int st, n = 0;
        if (!line[0]) { puts(""); continue; }
        in = vh_unhex(line, &len);
        if (len == 0) {
            /* keep a valid zero-size object: every access is an over-read */
            free(in);
            in = malloc(0);
        }
        live0 = vh_live;
        st = resolver_srv_lookup_buf(ctx, in, len, &list);
        for (rr = list; rr; rr = rr->next) n++;
        if (st == XMPP_DOMAIN_FOUND) printf("F %d", n);
        else if (st == XMPP_DOMAIN_NOT_FOUND) { printf("N"); if (list) printf(" list=%d", n); }
        else printf("S %d", st);
        for (rr = list; rr; rr = rr->next) {
            const char *e = memchr(rr->target, 0, sizeof(rr->target));
            printf("%s%u,%u,%u,", rr == list ? " " : ";", (unsigned)rr->priority, (unsigned)rr->weight, (unsigned)rr->port);
            if (!e) printf("UNTERMINATED");
            else vh_puthex((const unsigned char *)rr->target, (size_t)(e - rr->target));
        }
        if (list) resolver_srv_free(ctx, list);
        if (vh_live != live0) printf(" leak=%ld", vh_live - live0);
        putchar('\n');
        free(in);
        fflush(stdout);
    }
    xmpp_ctx_free(ctx);
    return 0;
}
