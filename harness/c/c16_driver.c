/* C16 driver: persisted stream-management state (xmpp_conn_restore_sm_state and the blob handed to the
   xmpp_conn_set_sm_callback callback), driven without a network like tests/test_serialize_sm.c:
   fake conn->intf, conn->state forced, conn->sock left invalid so that xmpp_run_once() only runs its
   send loop.

   input, one scenario per line (tokens separated by one space):
     S <sent> <handled> <idhex> <op>* / <op>*     build a source connection with the real library (SM state
                                                   injected, the first op list is run on it), take the blob from
                                                   the SM callback, restore it into a fresh connection, run the
                                                   second op list on the restored connection and on a natively
                                                   built twin
     B <blobhex> / <op>*                           restore the given bytes (exact-size malloc'd copy)
   ops:  s:<hex> xmpp_send_raw            t:<hex> xmpp_send_raw_string("%s")
         r:<n,n,...> xmpp_run_once with a write schedule (bytes accepted per write call; <0 = EAGAIN;
                     exhausted = 0)       o / y  drop oldest / youngest        q  queue length
         a:<h> inbound <a h=.../> through the parser    i  inbound <message/> through the parser
         c  "connect": sm_state allocated if NULL (as xmpp_connect_client does), state CONNECTED,
            stream_negotiation_completed        d  state DISCONNECTED
   output: one line of key=value fields (see dump_conn / run_ops), or nothing when the process dies.  Each op list
   <name>= is followed by <name>x=: one entry per op, "<blob>|<live>": the blob handed to the SM callback
   during that op (hex, "null", or "=" when no callback fired) and the live connection's content after the op
   (live_state(); "=" when unchanged since the previous entry), so that a reader can see whether the last blob
   the application holds still describes the connection
   (the orchestrator turns that into a CRASH line).                                                        */
#include "vharness.h"
#include "common.h"
#include "parser.h"
#include <unistd.h>
#include <sys/wait.h>

#define MAXSCHED 512
#define WALK_LIMIT 1000000

typedef struct {
    xmpp_ctx_t *ctx;
    xmpp_conn_t *conn;
    long sched[MAXSCHED];
    int nsched, isched;
    int nwrites;
    int cb_seen, cb_null;
    size_t cb_len;
    unsigned long cb_sum;
    unsigned char *blob;
    size_t blob_len;
    int stream_open;
    int sm_ok; /* conn->sm_state is known to be NULL or valid (not left behind by a refused restore) */
} vc_t;

typedef struct {
    uint32_t sent, handled;
    char *id; /* C string or NULL */
    size_t nsq, nmq;
    char **sq; size_t *sqlen;
    char **mq; size_t *mqlen; uint32_t *mqh;
    int has_nul;
} snap_t;

/* ---------------------------------------------------------------- fake transport */
static int fk_read(struct conn_interface *intf, void *buff, size_t len) { (void)intf; (void)buff; (void)len; return 0; }
static int fk_write(struct conn_interface *intf, const void *buff, size_t len)
{
    vc_t *v = (vc_t *)intf->conn->userdata;
    long s = v->isched < v->nsched ? v->sched[v->isched++] : 0;
    size_t n;
    if (v->nwrites++) putchar('.');
    if (s < 0) { putchar('E'); return -1; }
    n = (size_t)s < len ? (size_t)s : len;
    if (n == 0) putchar('z'); else vh_puthex((const unsigned char *)buff, n);
    return (int)n;
}
static int fk_zero(struct conn_interface *intf) { (void)intf; return 0; }
static int fk_get_error(struct conn_interface *intf) { (void)intf; return 11; }
static int fk_recoverable(struct conn_interface *intf, int err) { (void)intf; (void)err; return 1; }

static void sm_cb(xmpp_conn_t *conn, void *ctx, const unsigned char *buf, size_t size)
{
    vc_t *v = (vc_t *)ctx;
    size_t i;
    unsigned long h = 0;
    (void)conn;
    v->cb_seen = 1;
    v->cb_null = buf == NULL;
    v->cb_len = size;
    free(v->blob);
    v->blob = NULL;
    v->blob_len = 0;
    if (buf) {
        for (i = 0; i < size; i++) h = (h * 257 + buf[i] + 1) % 1000000007UL;
        v->blob = malloc(size ? size : 1);
        memcpy(v->blob, buf, size);
        v->blob_len = size;
    }
    v->cb_sum = h;
}

static void open_stub(xmpp_conn_t *conn) { (void)conn; }

static void vc_new(vc_t *v)
{
    struct conn_interface intf = {fk_read, fk_write, fk_zero, fk_zero, fk_get_error, fk_recoverable, NULL};
    memset(v, 0, sizeof(*v));
    v->ctx = xmpp_ctx_new(&vh_mem, NULL);
    v->conn = xmpp_conn_new(v->ctx);
    intf.conn = v->conn;
    v->conn->intf = intf;
    v->conn->userdata = v;
    xmpp_conn_set_sm_callback(v->conn, sm_cb, v);
}

static void vc_release(vc_t *v)
{
    v->conn->state = XMPP_STATE_DISCONNECTED;
    xmpp_conn_release(v->conn);
    xmpp_ctx_free(v->ctx);
    free(v->blob);
    v->blob = NULL;
}

static xmpp_sm_state_t *new_sm(xmpp_ctx_t *ctx, uint32_t sent, uint32_t handled, const char *id, int resume, int r_sent)
{
    xmpp_sm_state_t *sm = strophe_alloc(ctx, sizeof(*sm));
    memset(sm, 0, sizeof(*sm));
    sm->ctx = ctx;
    sm->sm_support = sm->sm_enabled = sm->can_resume = 1;
    sm->resume = resume;
    sm->r_sent = r_sent;
    sm->sm_sent_nr = sent;
    sm->sm_handled_nr = handled;
    sm->id = id ? strophe_strdup(ctx, id) : NULL;
    return sm;
}

/* ---------------------------------------------------------------- dumps */
static void put_text(const char *d, size_t n)
{
    if (!d) putchar('N');
    else if (n == 0) putchar('z');
    else vh_puthex((const unsigned char *)d, n);
}

static void linkage(xmpp_send_queue_t *head, xmpp_send_queue_t *tail)
{
    static xmpp_send_queue_t **arr = NULL;
    static size_t cap = 0;
    size_t n = 0;
    long k;
    int B;
    xmpp_send_queue_t *e, *last = NULL;
    if (!head && !tail) { printf("0:E"); return; }
    for (e = head; e && n < WALK_LIMIT; e = e->next) {
        if (n == cap) { cap = cap ? 2 * cap : 64; arr = realloc(arr, cap * sizeof(*arr)); }
        arr[n++] = e;
        last = e;
    }
    if (!head || !tail) { printf("%zu:X", n); return; }
    printf("%zu:%c%c", n, head->prev == NULL ? 'H' : 'h', (last == tail && tail->next == NULL) ? 'T' : 't');
    /* backward from tail via prev until head, comparing with the forward sequence */
    B = 1;
    e = tail;
    k = (long)n - 1;
    for (;;) {
        if (k < 0 || e != arr[k]) { B = 0; break; }
        if (e == head) break;
        e = e->prev;
        k--;
        if (!e) { B = 0; break; }
    }
    if (B && k != 0) B = 0;
    putchar(B ? 'B' : 'b');
}

/* deref_sm = 0: after a refused restore the application cannot look into conn->sm_state (the type is
   opaque); only whether the pointer is set is reported */
static void dump_conn2(xmpp_conn_t *c, int deref_sm)
{
    xmpp_send_queue_t *e;
    size_t n;
    printf("st=%d;neg=%d;", (int)c->state, c->stream_negotiation_completed);
    if (c->sm_state && !deref_sm) printf("sm=!;");
    else if (c->sm_state) {
        xmpp_sm_state_t *s = c->sm_state;
        printf("sm=1;s=%u;h=%u;id=", s->sm_sent_nr, s->sm_handled_nr);
        put_text(s->id, s->id ? strlen(s->id) : 0);
        printf(";fl=%d%d%d%d%d;", !!s->sm_support, !!s->sm_enabled, !!s->can_resume, !!s->resume, !!s->r_sent);
    } else
        printf("sm=0;");
    printf("ql=%d;qu=%d;sq=", c->send_queue_len, c->send_queue_user_len);
    n = 0;
    for (e = c->send_queue_head; e && n < WALK_LIMIT; e = e->next, n++) {
        if (n) putchar(',');
        put_text(e->data, e->len);
        printf(".%d.%d.%zu.%d", (int)e->owner, e->wip, e->written,
               e->userdata == NULL ? 0 : (e->userdata == (void *)e->prev ? 1 : 2));
    }
    if (!n) putchar('-');
    if (c->sm_state && deref_sm) {
        printf(";mq=");
        n = 0;
        for (e = c->sm_state->sm_queue.head; e && n < WALK_LIMIT; e = e->next, n++) {
            if (n) putchar(',');
            printf("%u.", e->sm_h);
            put_text(e->data, e->len);
            printf(".%d", (int)e->owner);
        }
        if (!n) putchar('-');
    }
    printf(";lk=");
    linkage(c->send_queue_head, c->send_queue_tail);
    if (c->sm_state && deref_sm) {
        putchar('/');
        linkage(c->sm_state->sm_queue.head, c->sm_state->sm_queue.tail);
    }
}
static void dump_conn(xmpp_conn_t *c) { dump_conn2(c, 1); }

static void fput_text(FILE *f, const char *d, size_t n)
{
    size_t i;
    if (!d) fputc('N', f);
    else if (n == 0) fputc('z', f);
    else for (i = 0; i < n; i++) fprintf(f, "%02x", (unsigned char)d[i]);
}

/* what a blob is supposed to describe: flags_sent_handled_id_unsent_unacked ("n" without a usable sm_state) */
static char *live_state(xmpp_conn_t *c, int deref_sm)
{
    char *buf = NULL;
    size_t len = 0, n;
    FILE *f = open_memstream(&buf, &len);
    xmpp_send_queue_t *e;
    if (!c->sm_state || !deref_sm) fputc('n', f);
    else {
        xmpp_sm_state_t *s = c->sm_state;
        fprintf(f, "%d%d%d_%u_%u_", !!s->sm_support, !!s->sm_enabled, !!s->can_resume, s->sm_sent_nr, s->sm_handled_nr);
        fput_text(f, s->id, s->id ? strlen(s->id) : 0);
        fputc('_', f);
        for (n = 0, e = c->send_queue_head; e && n < WALK_LIMIT; e = e->next, n++) {
            if (n) fputc('.', f);
            fput_text(f, e->data, e->len);
        }
        if (!n) fputc('-', f);
        fputc('_', f);
        for (n = 0, e = s->sm_queue.head; e && n < WALK_LIMIT; e = e->next, n++) {
            if (n) fputc('.', f);
            fprintf(f, "%u:", e->sm_h);
            fput_text(f, e->data, e->len);
        }
        if (!n) fputc('-', f);
    }
    fclose(f);
    return buf;
}

/* ---------------------------------------------------------------- snapshot + native twin */
static char *dupn(const char *d, size_t n)
{
    char *r = malloc(n + 1);
    if (d) memcpy(r, d, n);
    r[n] = 0;
    return r;
}

static void snapshot(xmpp_conn_t *c, snap_t *s)
{
    xmpp_send_queue_t *e;
    size_t i;
    memset(s, 0, sizeof(*s));
    s->sent = c->sm_state->sm_sent_nr;
    s->handled = c->sm_state->sm_handled_nr;
    s->id = c->sm_state->id ? dupn(c->sm_state->id, strlen(c->sm_state->id)) : NULL;
    for (e = c->send_queue_head; e; e = e->next) s->nsq++;
    for (e = c->sm_state->sm_queue.head; e; e = e->next) s->nmq++;
    s->sq = calloc(s->nsq + 1, sizeof(char *));
    s->sqlen = calloc(s->nsq + 1, sizeof(size_t));
    s->mq = calloc(s->nmq + 1, sizeof(char *));
    s->mqlen = calloc(s->nmq + 1, sizeof(size_t));
    s->mqh = calloc(s->nmq + 1, sizeof(uint32_t));
    for (i = 0, e = c->send_queue_head; e; e = e->next, i++) {
        s->sq[i] = dupn(e->data, e->len);
        s->sqlen[i] = e->len;
        if (!e->data || memchr(e->data, 0, e->len)) s->has_nul = 1;
    }
    for (i = 0, e = c->sm_state->sm_queue.head; e; e = e->next, i++) {
        s->mq[i] = dupn(e->data, e->len);
        s->mqlen[i] = e->len;
        s->mqh[i] = e->sm_h;
    }
}

static void snap_free(snap_t *s)
{
    size_t i;
    for (i = 0; i < s->nsq; i++) free(s->sq[i]);
    for (i = 0; i < s->nmq; i++) free(s->mq[i]);
    free(s->sq); free(s->sqlen); free(s->mq); free(s->mqlen); free(s->mqh); free(s->id);
}

/* a connection whose queues are built natively: the unsent texts by xmpp_send_raw on a connected
   connection (r_sent held at 1 so that no <r/> is interleaved), the unacknowledged ones by the library's
   add_queue_back, which is what the send loop uses */
static void build_twin(vc_t *t, const snap_t *s)
{
    size_t i;
    xmpp_sm_state_t *sm;
    vc_new(t);
    sm = new_sm(t->ctx, s->sent, s->handled, s->id, 1, 1);
    xmpp_conn_set_sm_state(t->conn, sm);
    t->conn->state = XMPP_STATE_CONNECTED;
    t->conn->stream_negotiation_completed = 1;
    for (i = 0; i < s->nsq; i++) xmpp_send_raw(t->conn, s->sq[i], s->sqlen[i]);
    for (i = 0; i < s->nmq; i++) {
        xmpp_send_queue_t *item = strophe_alloc(t->ctx, sizeof(*item));
        memset(item, 0, sizeof(*item));
        item->data = strophe_alloc(t->ctx, s->mqlen[i] + 1);
        memcpy(item->data, s->mq[i], s->mqlen[i] + 1);
        item->len = s->mqlen[i];
        item->sm_h = s->mqh[i];
        item->owner = XMPP_QUEUE_USER;
        add_queue_back(&sm->sm_queue, item);
    }
    sm->r_sent = 0;
    t->conn->state = XMPP_STATE_DISCONNECTED;
    t->conn->stream_negotiation_completed = 0;
    t->cb_seen = 0;
}

/* ---------------------------------------------------------------- operations */
static void feed(vc_t *v, const char *xml)
{
    char *copy;
    if (!v->stream_open) {
        const char *open = "<stream:stream xmlns='jabber:client' xmlns:stream='http://etherx.jabber.org/streams' "
                           "id='c16' from='h' version='1.0'>";
        copy = dupn(open, strlen(open));
        v->conn->open_handler = open_stub;
        parser_feed(v->conn->parser, copy, (int)strlen(copy));
        free(copy);
        v->stream_open = 1;
    }
    copy = dupn(xml, strlen(xml));
    parser_feed(v->conn->parser, copy, (int)strlen(copy));
    free(copy);
}

static void run_ops(vc_t *v, char **tok, int n, const char *name)
{
    int i;
    xmpp_conn_t *c = v->conn;
    char *xbuf = NULL, *prev_live = NULL;
    size_t xlen = 0;
    FILE *x = open_memstream(&xbuf, &xlen);
    if (n == 0) putchar('-');
    if (n == 0) fputc('-', x);
    for (i = 0; i < n; i++) {
        char *o = tok[i];
        if (i) putchar(',');
        v->cb_seen = 0;
        if (o[0] == 'q') printf("q%d", xmpp_conn_send_queue_len(c));
        else if (o[0] == 'o' || o[0] == 'y') {
            char *r = xmpp_conn_send_queue_drop_element(c, o[0] == 'o' ? XMPP_QUEUE_OLDEST : XMPP_QUEUE_YOUNGEST);
            putchar(o[0]);
            put_text(r, r ? strlen(r) : 0);
            if (r) xmpp_free(v->ctx, r);
        } else if (o[0] == 's' || o[0] == 't') {
            size_t len;
            unsigned char *b = vh_unhex(o + 2, &len);
            char *z = dupn((char *)b, len); /* NUL-terminated copy: strophe_strndup calls strlen */
            if (o[0] == 's') xmpp_send_raw(c, z, len);
            else xmpp_send_raw_string(c, "%s", z);
            putchar(o[0]);
            free(z);
            free(b);
        } else if (o[0] == 'r') {
            char *p = o + 1;
            v->nsched = v->isched = v->nwrites = 0;
            if (*p == ':') p++;
            while (*p && v->nsched < MAXSCHED) {
                v->sched[v->nsched++] = strtol(p, &p, 10);
                if (*p == ',') p++;
            }
            putchar('r');
            xmpp_run_once(v->ctx, 0);
            if (!v->nwrites) putchar('-');
        } else if (o[0] == 'a' || o[0] == 'i') {
            putchar(o[0]);
            if (!c->sm_state) putchar('!');
            else if (o[0] == 'a') {
                char xml[96];
                snprintf(xml, sizeof(xml), "<a xmlns='urn:xmpp:sm:3' h='%s'/>", o + 2);
                feed(v, xml);
            } else
                feed(v, "<message/>");
        } else if (o[0] == 'c') {
            if (!c->sm_state) {
                c->sm_state = strophe_alloc(v->ctx, sizeof(*c->sm_state));
                memset(c->sm_state, 0, sizeof(*c->sm_state));
                c->sm_state->ctx = v->ctx;
                v->sm_ok = 1;
            }
            c->state = XMPP_STATE_CONNECTED;
            c->stream_negotiation_completed = 1;
            c->sock = 0; /* FD_SET(0) is harmless and `max` stays 0, so xmpp_run_once returns before select() */
            putchar('c');
        } else if (o[0] == 'd') {
            c->state = XMPP_STATE_DISCONNECTED;
            c->stream_negotiation_completed = 0;
            putchar('d');
        } else
            putchar('?');
        if (v->cb_seen) {
            if (v->cb_null) printf("~null");
            else printf("~%zu:%lu", v->cb_len, v->cb_sum);
        }
        {
            char *live = live_state(c, v->sm_ok);
            size_t k;
            if (i) fputc(',', x);
            if (!v->cb_seen) fputc('=', x);
            else if (v->cb_null) fputs("null", x);
            else if (v->blob_len == 0) fputc('z', x);
            else for (k = 0; k < v->blob_len; k++) fprintf(x, "%02x", v->blob[k]);
            fputc('|', x);
            if (prev_live && !strcmp(prev_live, live)) fputc('=', x);
            else fputs(live, x);
            free(prev_live);
            prev_live = live;
        }
    }
    free(prev_live);
    fclose(x);
    printf(" %sx=%s", name, xbuf);
    free(xbuf);
}

/* ---------------------------------------------------------------- one scenario */
static void scenario(char *line)
{
    static char **tok = NULL;
    static int tokcap = 0;
    int ntok = 0, slash = -1, i, first;
    char *p = line;
    long live0 = vh_live;
    vc_t src, rst, twin;
    int have_src = 0, have_twin = 0, rc;
    unsigned char *blob = NULL;
    size_t bloblen = 0;
    snap_t sn;
    int have_snap = 0;

    while (*p) {
        while (*p == ' ') p++;
        if (!*p) break;
        if (ntok == tokcap) { tokcap = tokcap ? 2 * tokcap : 64; tok = realloc(tok, tokcap * sizeof(*tok)); }
        tok[ntok++] = p;
        while (*p && *p != ' ') p++;
        if (*p) *p++ = 0;
    }
    for (i = 0; i < ntok; i++)
        if (!strcmp(tok[i], "/")) { slash = i; break; }
    if (ntok < 2 || slash < 0) { puts("?"); return; }

    putchar(tok[0][0]);
    if (tok[0][0] == 'S') {
        size_t idlen;
        unsigned char *idb;
        char *id;
        if (slash < 4) { puts(" ?"); return; }
        idb = vh_unhex(tok[3], &idlen);
        id = dupn((char *)idb, idlen);
        free(idb);
        vc_new(&src);
        have_src = 1;
        xmpp_conn_set_sm_state(src.conn, new_sm(src.ctx, (uint32_t)strtoul(tok[1], NULL, 10),
                                                 (uint32_t)strtoul(tok[2], NULL, 10), id, 0, 0));
        free(id);
        src.conn->state = XMPP_STATE_CONNECTED;
        src.conn->stream_negotiation_completed = 1;
        src.conn->sock = 0;
        printf(" sops=");
        src.sm_ok = 1;
        run_ops(&src, tok + 4, slash - 4, "sops");
        src.cb_seen = 0;
        trigger_sm_callback(src.conn);
        printf(" src=");
        dump_conn(src.conn);
        printf(" blob=");
        if (!src.cb_seen || src.cb_null) printf("null");
        else {
            vh_puthex(src.blob, src.blob_len);
            blob = malloc(src.blob_len ? src.blob_len : 1);
            memcpy(blob, src.blob, src.blob_len);
            bloblen = src.blob_len;
        }
        snapshot(src.conn, &sn);
        have_snap = 1;
        first = slash + 1;
    } else if (tok[0][0] == 'B') {
        if (slash != 2) { puts(" ?"); return; }
        blob = vh_unhex(tok[1], &bloblen);
        first = slash + 1;
    } else { puts(" ?"); return; }

    if (!blob) { blob = malloc(1); bloblen = 0; }
    vc_new(&rst);
    rc = xmpp_conn_restore_sm_state(rst.conn, blob, bloblen);
    free(blob);
    rst.sm_ok = rc == 0 || rst.conn->sm_state == NULL;
    printf(" rc=%d rst=", rc);
    dump_conn2(rst.conn, rst.sm_ok);
    if (rc == 0 && rst.conn->sm_state) {
        if (!have_snap) { snapshot(rst.conn, &sn); have_snap = 1; }
        if (!sn.has_nul) {
            build_twin(&twin, &sn);
            have_twin = 1;
            printf(" twin=");
            dump_conn(twin.conn);
        } else
            printf(" twin=nul");
    }
    printf(" ops=");
    run_ops(&rst, tok + first, ntok - first, "ops");
    printf(" fin=");
    dump_conn2(rst.conn, rst.sm_ok);
    if (have_twin) {
        printf(" tops=");
        twin.sm_ok = 1;
        run_ops(&twin, tok + first, ntok - first, "tops");
        printf(" tfin=");
        dump_conn(twin.conn);
    }
    vc_release(&rst);
    if (have_twin) vc_release(&twin);
    if (have_src) vc_release(&src);
    if (have_snap) snap_free(&sn);
    printf(" leak=%ld rel=ok\n", vh_live - live0);
}

/* every scenario runs in a forked child, so that a sanitizer abort costs one line, not the batch: the parent
   then prints "CRASH <sanitizer summary>" for it */
static void crash_line(int status, const char *err)
{
    const char *keys[] = {"SUMMARY: AddressSanitizer: ", "runtime error: ", "SUMMARY: UndefinedBehaviorSanitizer: ", NULL};
    int k;
    printf("CRASH ");
    for (k = 0; keys[k]; k++) {
        const char *p = strstr(err, keys[k]);
        if (p) {
            const char *e = strchr(p, '\n');
            size_t n = e ? (size_t)(e - p) : strlen(p);
            if (n > 200) n = 200;
            fwrite(p, 1, n, stdout);
            putchar('\n');
            return;
        }
    }
    if (WIFSIGNALED(status)) printf("signal %d\n", WTERMSIG(status));
    else printf("exit %d\n", WEXITSTATUS(status));
}

int main(int argc, char **argv)
{
    char *line;
    int nofork = argc > 1 && !strcmp(argv[1], "--nofork");
    xmpp_initialize();
    while ((line = vh_getline())) {
        if (!line[0]) { puts(""); fflush(stdout); continue; }
        if (nofork) {
            scenario(line);
            fflush(stdout);
            continue;
        }
        {
            int pe[2];
            pid_t pid;
            static char err[65536];
            static FILE *tf = NULL;
            size_t got = 0;
            ssize_t r;
            int status = 0;
            fflush(stdout);
            if (!tf) tf = tmpfile();
            if (!tf || pipe(pe) != 0) return 3;
            rewind(tf);
            if (ftruncate(fileno(tf), 0) != 0) return 3;
            pid = fork();
            if (pid < 0) return 3;
            if (pid == 0) {
                /* the child's line goes to a scratch file and is copied out only when the child ends normally */
                close(pe[0]);
                dup2(pe[1], 2);
                dup2(fileno(tf), 1);
                alarm(20);
                scenario(line);
                fflush(stdout);
                _exit(0);
            }
            close(pe[1]);
            while (got < sizeof(err) - 1 && (r = read(pe[0], err + got, sizeof(err) - 1 - got)) > 0) got += (size_t)r;
            err[got] = 0;
            { char sink[4096]; while (read(pe[0], sink, sizeof(sink)) > 0) {} }
            close(pe[0]);
            waitpid(pid, &status, 0);
            if (WIFEXITED(status) && WEXITSTATUS(status) == 0) {
                char cp[65536];
                size_t n;
                fseek(tf, 0, SEEK_SET);
                while ((n = fread(cp, 1, sizeof(cp), tf)) > 0) fwrite(cp, 1, n, stdout);
            } else
                crash_line(status, err);
            fflush(stdout);
        }
    }
    return 0;
}
