/* C17 driver: feeds a message in a given split through every incremental digest API of the
   library.  Each context lives in exact-size heap memory pre-filled with a poison byte and every
   case is run twice with different poison: a digest that differs was computed from memory the
   library never wrote.
   input : U <alg> <msghex> <lens>    init; update per comma-separated length ("-" = no update call); final
           O <alg> <msghex>           one-shot function (crypto_SHA1 / sha256_hash / sha512_hash; md5: Init/Update/Final)
           M <alg> <keyhex> <msghex>  crypto_HMAC with the library's hash_alg table
           A <slen> <msghex> <lens>   xmpp_sha1_new/update.../final/to_string(buffer of slen bytes)
           X <msghex>                 xmpp_sha1() and xmpp_sha1_digest()
           L <alg> <MiB> <seed>       stream MiB x 1 MiB of a fixed pattern through the incremental API
   output: same tag (+ alg) + hex digest / string / "null" / "unstable"                          */
#include <assert.h>
#include "vharness.h"
/* include scram.c to reach the static crypto_HMAC and the hash_alg tables, as tests/test_scram.c does */
#include "scram.c"
#include "md5.h"

#define MAXD 64

static size_t parse_lens(const char *s, size_t *out, size_t max)
{
    size_t n = 0;
    if (s[0] == '-' && !s[1]) return 0;
    while (*s && n < max) {
        out[n++] = (size_t)strtoul(s, (char **)&s, 10);
        if (*s == ',') s++;
    }
    return n;
}

/* returns digest length; alg: 1 sha1, 2 sha256, 5 sha512, 0 md5 */
static size_t run_incremental(int alg, const unsigned char *msg, const size_t *lens, size_t nl,
                              unsigned char poison, unsigned char *out)
{
    size_t i, off = 0;
    /* every chunk is handed over as its own exact-size heap block so that reads past the chunk trap */
    if (alg == 1) {
        SHA1_CTX *c = malloc(sizeof(*c)); memset(c, poison, sizeof(*c));
        crypto_SHA1_Init(c);
        for (i = 0; i < nl; i++) { unsigned char *p = malloc(lens[i] ? lens[i] : 1); memcpy(p, msg + off, lens[i]);
            crypto_SHA1_Update(c, p, lens[i]); off += lens[i]; free(p); }
        { unsigned char *o = malloc(SHA1_DIGEST_SIZE); crypto_SHA1_Final(c, o); memcpy(out, o, SHA1_DIGEST_SIZE); free(o); } free(c); return SHA1_DIGEST_SIZE;
    } else if (alg == 2) {
        sha256_context *c = malloc(sizeof(*c)); memset(c, poison, sizeof(*c));
        sha256_init(c);
        for (i = 0; i < nl; i++) { unsigned char *p = malloc(lens[i] ? lens[i] : 1); memcpy(p, msg + off, lens[i]);
            sha256_process(c, p, lens[i]); off += lens[i]; free(p); }
        { unsigned char *o = malloc(SHA256_DIGEST_SIZE); sha256_done(c, o); memcpy(out, o, SHA256_DIGEST_SIZE); free(o); } free(c); return SHA256_DIGEST_SIZE;
    } else if (alg == 5) {
        sha512_context *c = malloc(sizeof(*c)); memset(c, poison, sizeof(*c));
        sha512_init(c);
        for (i = 0; i < nl; i++) { unsigned char *p = malloc(lens[i] ? lens[i] : 1); memcpy(p, msg + off, lens[i]);
            sha512_process(c, p, lens[i]); off += lens[i]; free(p); }
        { unsigned char *o = malloc(SHA512_DIGEST_SIZE); sha512_done(c, o); memcpy(out, o, SHA512_DIGEST_SIZE); free(o); } free(c); return SHA512_DIGEST_SIZE;
    } else {
        struct MD5Context *c = malloc(sizeof(*c)); memset(c, poison, sizeof(*c));
        MD5Init(c);
        for (i = 0; i < nl; i++) { unsigned char *p = malloc(lens[i] ? lens[i] : 1); memcpy(p, msg + off, lens[i]);
            MD5Update(c, p, (uint32_t)lens[i]); off += lens[i]; free(p); }
        { unsigned char *o = malloc(16); MD5Final(o, c); memcpy(out, o, 16); free(o); } free(c); return 16;
    }
}

static int alg_id(const char *a)
{
    if (!strcmp(a, "sha1")) return 1;
    if (!strcmp(a, "sha256")) return 2;
    if (!strcmp(a, "sha512")) return 5;
    if (!strcmp(a, "md5")) return 0;
    return -1;
}
static const struct hash_alg *alg_tab(int id)
{
    return id == 1 ? &scram_sha1 : id == 2 ? &scram_sha256 : id == 5 ? &scram_sha512 : NULL;
}

static void put_two(const unsigned char *a, const unsigned char *b, size_t n)
{
    if (memcmp(a, b, n)) printf("unstable"); else vh_puthex(a, n);
}

int main(void)
{
    char *line;
    xmpp_ctx_t *ctx = xmpp_ctx_new(&vh_mem, NULL);
    static size_t lens[100000];
    while ((line = vh_getline())) {
        char *tok[5]; int nt = 0; char *sv = NULL, *t;
        char op;
        if (!line[0]) { puts(""); continue; }
        for (t = strtok_r(line, " ", &sv); t && nt < 5; t = strtok_r(NULL, " ", &sv)) tok[nt++] = t;
        op = tok[0][0];
        if (op == 'U' && nt == 4) {
            size_t len, nl, n1, i, sum = 0; unsigned char *msg = vh_unhex(tok[2], &len);
            unsigned char d1[MAXD], d2[MAXD]; int id = alg_id(tok[1]);
            nl = parse_lens(tok[3], lens, 100000);
            for (i = 0; i < nl; i++) sum += lens[i];
            if (sum != len || id < 0) { puts("?"); free(msg); continue; }
            memset(d1, 0x11, MAXD); memset(d2, 0x22, MAXD);
            n1 = run_incremental(id, msg, lens, nl, 0xAA, d1);
            run_incremental(id, msg, lens, nl, 0x55, d2);
            printf("U %s ", tok[1]); put_two(d1, d2, n1); putchar('\n');
            free(msg);
        } else if (op == 'O' && nt == 3) {
            size_t len; unsigned char *msg = vh_unhex(tok[2], &len);
            unsigned char d[MAXD]; int id = alg_id(tok[1]); size_t n = 0;
            memset(d, 0x11, MAXD);
            if (id == 1) { crypto_SHA1(msg, len, d); n = SHA1_DIGEST_SIZE; }
            else if (id == 2) { sha256_hash(msg, len, d); n = SHA256_DIGEST_SIZE; }
            else if (id == 5) { sha512_hash(msg, len, d); n = SHA512_DIGEST_SIZE; }
            else if (id == 0) { size_t l1 = len; n = run_incremental(0, msg, &l1, 1, 0xAA, d); }
            printf("O %s ", tok[1]); vh_puthex(d, n); putchar('\n');
            free(msg);
        } else if (op == 'M' && nt == 4) {
            size_t klen, len; unsigned char *key = vh_unhex(tok[2], &klen), *msg = vh_unhex(tok[3], &len);
            unsigned char d[MAXD]; const struct hash_alg *alg = alg_tab(alg_id(tok[1]));
            if (!alg) { puts("?"); free(key); free(msg); continue; }
            memset(d, 0x11, MAXD);
            crypto_HMAC(alg, key, klen, msg, len, d);
            printf("M %s ", tok[1]); vh_puthex(d, alg->digest_size); putchar('\n');
            free(key); free(msg);
        } else if (op == 'A' && nt == 4) {
            size_t len, nl, i, off = 0, sum = 0, slen = (size_t)strtoul(tok[1], NULL, 10);
            unsigned char *msg = vh_unhex(tok[2], &len);
            char *s = malloc(slen ? slen : 1), *r; xmpp_sha1_t *h;
            nl = parse_lens(tok[3], lens, 100000);
            for (i = 0; i < nl; i++) sum += lens[i];
            if (sum != len) { puts("?"); free(msg); free(s); continue; }
            h = xmpp_sha1_new(ctx);
            for (i = 0; i < nl; i++) { unsigned char *p = malloc(lens[i] ? lens[i] : 1); memcpy(p, msg + off, lens[i]);
                xmpp_sha1_update(h, p, lens[i]); off += lens[i]; free(p); }
            xmpp_sha1_final(h);
            memset(s, 'Z', slen);
            r = xmpp_sha1_to_string(h, s, slen);
            if (!r) puts("A null");
            else if (r != s || strlen(s) + 1 > slen) puts("A bad-string");
            else {
                /* the allocating variant and the raw digest must say the same */
                char *s2 = xmpp_sha1_to_string_alloc(h); unsigned char dg[XMPP_SHA1_DIGEST_SIZE]; char hx[2 * XMPP_SHA1_DIGEST_SIZE + 1];
                xmpp_sha1_to_digest(h, dg);
                for (i = 0; i < XMPP_SHA1_DIGEST_SIZE; i++) sprintf(hx + 2 * i, "%02x", dg[i]);
                if (!s2 || strcmp(s2, s) || strcmp(hx, s)) puts("A inconsistent");
                else printf("A %s\n", s);
                xmpp_free(ctx, s2);
            }
            xmpp_sha1_free(h); free(msg); free(s);
        } else if (op == 'X' && nt == 2) {
            size_t len; unsigned char *msg = vh_unhex(tok[1], &len); unsigned char dg[XMPP_SHA1_DIGEST_SIZE];
            char *s = xmpp_sha1(ctx, msg, len);
            memset(dg, 0x11, sizeof(dg));
            xmpp_sha1_digest(msg, len, dg);
            if (!s) puts("X null"); else { printf("X %s ", s); vh_puthex(dg, sizeof(dg)); putchar('\n'); }
            xmpp_free(ctx, s); free(msg);
        } else if (op == 'L' && nt == 4) {
            /* MiB blocks of 1 MiB each, byte k of block b = (k * 131 + b * 7 + seed) & 255 */
            int id = alg_id(tok[1]); unsigned long mib = strtoul(tok[2], NULL, 10), b; unsigned seed = (unsigned)strtoul(tok[3], NULL, 10);
            size_t k, n = 0; unsigned char *blk = malloc(1 << 20); unsigned char d[MAXD];
            SHA1_CTX c1; sha256_context c2; sha512_context c5; struct MD5Context c0;
            if (id == 1) crypto_SHA1_Init(&c1); else if (id == 2) sha256_init(&c2); else if (id == 5) sha512_init(&c5); else MD5Init(&c0);
            for (b = 0; b < mib; b++) {
                for (k = 0; k < (1u << 20); k++) blk[k] = (unsigned char)((k * 131u + b * 7u + seed) & 255u);
                if (id == 1) crypto_SHA1_Update(&c1, blk, 1 << 20); else if (id == 2) sha256_process(&c2, blk, 1 << 20);
                else if (id == 5) sha512_process(&c5, blk, 1 << 20); else MD5Update(&c0, blk, 1 << 20);
            }
            if (id == 1) { crypto_SHA1_Final(&c1, d); n = 20; } else if (id == 2) { sha256_done(&c2, d); n = 32; }
            else if (id == 5) { sha512_done(&c5, d); n = 64; } else { MD5Final(d, &c0); n = 16; }
            printf("L %s ", tok[1]); vh_puthex(d, n); putchar('\n');
            free(blk);
        } else if (op == 'G' && nt == 4) {
            /* ONE update call with n bytes (n may exceed 2^29: the bit count then overflows 32 bits inside a single call);
               byte k = (k * 131 + seed) & 255 */
            int id = alg_id(tok[1]); size_t nbytes = (size_t)strtoull(tok[2], NULL, 10), k, n = 0; unsigned seed = (unsigned)strtoul(tok[3], NULL, 10);
            unsigned char *big = malloc(nbytes ? nbytes : 1); unsigned char d[MAXD];
            SHA1_CTX c1; sha256_context c2; sha512_context c5; struct MD5Context c0;
            if (!big) { puts("G nomem"); fflush(stdout); continue; }
            for (k = 0; k < nbytes; k++) big[k] = (unsigned char)((k * 131u + seed) & 255u);
            if (id == 1) { crypto_SHA1_Init(&c1); crypto_SHA1_Update(&c1, big, nbytes); crypto_SHA1_Final(&c1, d); n = 20; }
            else if (id == 2) { sha256_init(&c2); sha256_process(&c2, big, nbytes); sha256_done(&c2, d); n = 32; }
            else if (id == 5) { sha512_init(&c5); sha512_process(&c5, big, nbytes); sha512_done(&c5, d); n = 64; }
            else { MD5Init(&c0); MD5Update(&c0, big, (uint32_t)nbytes); MD5Final(d, &c0); n = 16; }
            printf("G %s ", tok[1]); vh_puthex(d, n); putchar('\n');
            free(big);
        } else puts("?");
        fflush(stdout);
    }
    xmpp_ctx_free(ctx);
    return 0;
}
