/* C18 driver: base64 through the public API with a poisoning allocator, each case run twice
   with different poison bytes; a returned byte that differs between the two runs was never
   written by the library.
   input : "E <hex>" | "D <hex>" | "S <hex>"
   output: "E <hex>" | "E null"
           "D <n> <hex-of-n-bytes with ?? for uninitialised>" | "D null"
           "S <hex>" | "S null" | "S uninit"                                        */
#include "vharness.h"

static void put_masked(const unsigned char *a, const unsigned char *b, size_t n)
{
    size_t i;
    if (n == 0) { putchar('-'); return; }
    for (i = 0; i < n; i++) {
        if (a[i] == b[i]) printf("%02x", a[i]); else printf("??");
    }
}

int main(void)
{
    char *line;
    xmpp_ctx_t *ctx = xmpp_ctx_new(&vh_mem, NULL);
    while ((line = vh_getline())) {
        size_t len; unsigned char *in;
        char op = line[0];
        if (!op) { puts(""); continue; }
        in = vh_unhex(line + 2, &len);
        if (op == 'E') {
            char *r1, *r2;
            vh_poison = 0xAA; r1 = xmpp_base64_encode(ctx, in, len);
            vh_poison = 0x55; r2 = xmpp_base64_encode(ctx, in, len);
            if (!r1 || !r2) puts("E null");
            else {
                /* the terminator must be where the encoded length says it is */
                size_t l1 = strlen(r1), l2 = strlen(r2);
                printf("E ");
                if (l1 != l2) printf("uninit"); else put_masked((unsigned char *)r1, (unsigned char *)r2, l1);
                putchar('\n');
            }
            xmpp_free(ctx, r1); xmpp_free(ctx, r2);
        } else if (op == 'D') {
            unsigned char *o1 = (unsigned char *)1, *o2 = (unsigned char *)1; size_t n1 = 77, n2 = 77;
            vh_poison = 0xAA; xmpp_base64_decode_bin(ctx, (char *)in, len, &o1, &n1);
            vh_poison = 0x55; xmpp_base64_decode_bin(ctx, (char *)in, len, &o2, &n2);
            if (!o1 && !o2) printf("D null%s\n", (n1 == 0 && n2 == 0) ? "" : " badlen");
            else if (!o1 || !o2 || n1 != n2) puts("D unstable");
            else { printf("D %zu ", n1); put_masked(o1, o2, n1); putchar('\n'); }
            xmpp_free(ctx, o1); xmpp_free(ctx, o2);
        } else if (op == 'S') {
            char *r1, *r2;
            vh_poison = 0xAA; r1 = xmpp_base64_decode_str(ctx, (char *)in, len);
            vh_poison = 0x55; r2 = xmpp_base64_decode_str(ctx, (char *)in, len);
            if (!r1 && !r2) puts("S null");
            else if (!r1 || !r2 || strlen(r1) != strlen(r2) || memcmp(r1, r2, strlen(r1))) puts("S uninit");
            else { printf("S "); vh_puthex((unsigned char *)r1, strlen(r1)); putchar('\n'); }
            xmpp_free(ctx, r1); xmpp_free(ctx, r2);
        } else puts("?");
        free(in);
        fflush(stdout);
    }
    xmpp_ctx_free(ctx);
    return 0;
}
