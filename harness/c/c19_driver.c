/* C19 driver: the five public JID functions of src/jid.c.
   Every argument is an exact-size heap copy (strlen+1 bytes, so ASan traps any read past the
   terminator); results are allocated by the poisoning allocator of vharness.h and every call is
   made twice with different poison bytes: a result that differs between the two runs contains
   bytes the library never wrote.
   input : "P <jid>"                         parse: bare node domain resource of <jid>
           "N <node> <domain> <resource>"    build, then parse the result
           a string is hex, "-" (empty) or "null" (NULL pointer; only for N)
   output: "P <bare> <node> <domain> <resource>"
           "N null"  |  "N <jid> <bare> <node> <domain> <resource>"
           each field hex | "-" | "null" | "uninit" | "unstable"; " leak=<n>" appended if blocks
           of the library's allocator are still live after the results were freed              */
#include "vharness.h"

static char *mkstr(const char *tok)
{
    size_t n; unsigned char *b; char *s;
    if (strcmp(tok, "null") == 0) return NULL;
    b = vh_unhex(tok, &n);
    s = malloc(n + 1);
    memcpy(s, b, n);
    s[n] = 0;
    free(b);
    return s;
}

static void emit(xmpp_ctx_t *ctx, char *r1, char *r2)
{
    if (!r1 && !r2) printf("null");
    else if (!r1 || !r2) printf("unstable");
    else if (strcmp(r1, r2) != 0) printf("uninit");
    else vh_puthex((unsigned char *)r1, strlen(r1));
    if (r1) xmpp_free(ctx, r1);
    if (r2) xmpp_free(ctx, r2);
}

typedef char *(*jidfn)(xmpp_ctx_t *, const char *);

static void split(xmpp_ctx_t *ctx, const char *jid)
{
    static const jidfn fns[4] = {xmpp_jid_bare, xmpp_jid_node, xmpp_jid_domain, xmpp_jid_resource};
    int i;
    for (i = 0; i < 4; i++) {
        char *r1, *r2;
        vh_poison = 0xAA; r1 = fns[i](ctx, jid);
        vh_poison = 0x55; r2 = fns[i](ctx, jid);
        putchar(' ');
        emit(ctx, r1, r2);
    }
}

int main(void)
{
    char *line;
    xmpp_ctx_t *ctx = xmpp_ctx_new(&vh_mem, NULL);
    while ((line = vh_getline())) {
        long live0 = vh_live;
        char op = line[0];
        if (!op) { puts(""); continue; }
        if (op == 'P') {
            char *jid = mkstr(line + 2);
            putchar('P');
            if (jid) split(ctx, jid); else printf(" ?");
            free(jid);
        } else if (op == 'N') {
            char *tok[3] = {NULL, NULL, NULL}, *arg[3], *save = NULL, *t;
            int k = 0;
            for (t = strtok_r(line + 2, " ", &save); t && k < 3; t = strtok_r(NULL, " ", &save)) tok[k++] = t;
            if (k != 3) { puts("?"); continue; }
            for (k = 0; k < 3; k++) arg[k] = mkstr(tok[k]);
            {
                char *r1, *r2;
                vh_poison = 0xAA; r1 = xmpp_jid_new(ctx, arg[0], arg[1], arg[2]);
                vh_poison = 0x55; r2 = xmpp_jid_new(ctx, arg[0], arg[1], arg[2]);
                printf("N ");
                if (r1 && r2 && strcmp(r1, r2) == 0) {
                    /* parse an exact-size copy of the result */
                    char *copy = malloc(strlen(r1) + 1);
                    strcpy(copy, r1);
                    emit(ctx, r1, r2);
                    split(ctx, copy);
                    free(copy);
                } else emit(ctx, r1, r2);
            }
            for (k = 0; k < 3; k++) free(arg[k]);
        } else printf("?");
        if (vh_live != live0) printf(" leak=%ld", vh_live - live0);
        putchar('\n');
        fflush(stdout);
    }
    xmpp_ctx_free(ctx);
    return 0;
}
