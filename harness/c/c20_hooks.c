/* c20_hooks: extra trace hooks for property C20, linked into the simworld driver by checks/C20.py
 * (vlib.build_simworld(name="c20sim", extra_sources=[this], extra_cflags=["-Wl,--wrap=..."])).
 *
 * simworld.c is unchanged.  The hooks are GNU ld --wrap interpositions on calls that cross translation
 * units:
 *   conn_interface_write   event.c -> top of the interface stack,  compression.c -> next layer
 *   parser_feed            event.c -> parser: the bytes handed to the XML parser
 *   conn_disconnect        any -> conn.c
 *   deflate / inflate      compression.c -> zlib (streams whose `opaque` is set, i.e. the library's), and
 *                          simworld.c -> zlib (opaque == NULL: the server-side codec of simworld)
 *   xmpp_run_once          simworld.c -> event.c: iteration marker
 *   xmpp_ctx_free          simworld.c -> ctx.c: end of the scenario
 * The records go to stdout as they happen, i.e. *before* the trace line that simworld prints with puts()
 * at the end of the scenario; the output line of a scenario is therefore
 *     <hook records> "# " <simworld trace>
 *
 * Record vocabulary (space separated):
 *   |                         end of an xmpp_run_once
 *   w<len>=<ret>              conn_interface_write on the connection's top interface while a compression
 *                             layer is installed (event.c's send loop); printed when the call returns, i.e.
 *                             after the d/n records of the calls it made
 *   n<len>=<ret>:<hex>        conn_interface_write of the compression layer to the next layer, with the
 *                             (compressed) bytes offered
 *   d<in>,<room>,<flush>,<consumed>,<ret>:<hex produced>    one deflate call of the library
 *   i<in>,<room>,<consumed>,<ret>:<hex produced>            one inflate call of the library
 *   s<in>=<out>               simworld's server deflated an rx chunk of <in> bytes into <out> bytes
 *   p<hex>                    parser_feed while a compression layer is installed
 *   P<len>                    parser_feed without compression layer (length only)
 *   E<conn->error>            conn_disconnect on a connection that is not yet disconnected
 */
#include <stdio.h>
#include <string.h>
#include <zlib.h>

#include "strophe.h"
#include "common.h"
#include "parser.h"

static void hx(const unsigned char *b, size_t n)
{
    static const char d[] = "0123456789abcdef";
    size_t i;
    if (n == 0) { putchar('-'); return; }
    for (i = 0; i < n; i++) { putchar(d[b[i] >> 4]); putchar(d[b[i] & 15]); }
}

int __real_conn_interface_write(struct conn_interface *intf, const void *buff, size_t len);
int __wrap_conn_interface_write(struct conn_interface *intf, const void *buff, size_t len)
{
    xmpp_conn_t *conn = intf->conn;
    int top = intf == &conn->intf;
    int layered = conn->compression.state != NULL;
    int ret = __real_conn_interface_write(intf, buff, len);
    if (layered) {
        if (top) printf("w%zu=%d ", len, ret);
        else { printf("n%zu=%d:", len, ret); hx(buff, len); putchar(' '); }
    }
    return ret;
}

int __real_parser_feed(parser_t *parser, char *chunk, int len);
static xmpp_conn_t *feeding;   /* the (single) connection of the scenario, see xmpp_run_once below */
int __wrap_parser_feed(parser_t *parser, char *chunk, int len)
{
    if (feeding && feeding->compression.state && feeding->parser == parser) {
        putchar('p'); hx((unsigned char *)chunk, (size_t)len); putchar(' ');
    } else printf("P%d ", len);
    return __real_parser_feed(parser, chunk, len);
}

void __real_conn_disconnect(xmpp_conn_t *conn);
void __wrap_conn_disconnect(xmpp_conn_t *conn)
{
    if (conn->state != XMPP_STATE_DISCONNECTED) printf("E%d ", conn->error);
    __real_conn_disconnect(conn);
}

int __real_deflate(z_streamp strm, int flush);
int __wrap_deflate(z_streamp strm, int flush)
{
    uInt in0 = strm->avail_in, out0 = strm->avail_out;
    Bytef *o = strm->next_out;
    int ret = __real_deflate(strm, flush);
    if (strm->opaque) {
        printf("d%u,%u,%d,%u,%d:", in0, out0, flush, in0 - strm->avail_in, ret);
        hx(o, (size_t)(out0 - strm->avail_out));
        putchar(' ');
    } else printf("s%u=%u ", in0, out0 - strm->avail_out);
    return ret;
}

int __real_inflate(z_streamp strm, int flush);
int __wrap_inflate(z_streamp strm, int flush)
{
    uInt in0 = strm->avail_in, out0 = strm->avail_out;
    Bytef *o = strm->next_out;
    int ret = __real_inflate(strm, flush);
    if (strm->opaque) {
        printf("i%u,%u,%u,%d:", in0, out0, in0 - strm->avail_in, ret);
        hx(o, (size_t)(out0 - strm->avail_out));
        putchar(' ');
    }
    return ret;
}

void __real_xmpp_run_once(xmpp_ctx_t *ctx, unsigned long timeout);
void __wrap_xmpp_run_once(xmpp_ctx_t *ctx, unsigned long timeout)
{
    feeding = ctx->connlist ? ctx->connlist->conn : NULL;
    __real_xmpp_run_once(ctx, timeout);
    feeding = NULL;
    fputs("| ", stdout);
}

/* end of the hook records: simworld prints its trace with puts() after xmpp_ctx_free() */
void __real_xmpp_ctx_free(xmpp_ctx_t *ctx);
void __wrap_xmpp_ctx_free(xmpp_ctx_t *ctx)
{
    __real_xmpp_ctx_free(ctx);
    fputs("# ", stdout);
}
