/* c20_hooks: extra trace hooks for property C20, linked into the simworld driver by checks/C20.py
 * (vlib.build_simworld(name="c20sim", extra_sources=[this], extra_cflags=["-Wl,--wrap=..."])).
 *
 * simworld.c is unchanged.  The hooks are GNU ld --wrap interpositions on calls that cross translation
 * units of the library:
 *   conn_interface_write   event.c -> (top of the interface stack)  and  compression.c -> next layer
 *   parser_feed            event.c -> parser: the bytes handed to the XML parser
 *   deflate / inflate      compression.c -> zlib (only streams whose `opaque` is set, i.e. the library's;
 *                          the streams of simworld's server-side codec have opaque == NULL)
 *   xmpp_run_once          simworld.c -> event.c: iteration marker
 * The records go to stdout as they happen, i.e. *before* the trace line that simworld prints with puts()
 * at the end of the scenario; the output line of a scenario is therefore
 *     <hook records> "#" <simworld trace>
 * ('#' is printed by the first hook record of a scenario... no: by the run_once wrapper, see below).
 *
 * Record vocabulary (space separated, all before the single '#'):
 *   |                         end of an xmpp_run_once
 *   w<len>=<ret>              conn_interface_write on the connection's top interface while a compression
 *                             layer is installed (event.c's send loop)
 *   n<len>=<ret>:<hex>        conn_interface_write of the compression layer to the next layer, with the
 *                             (compressed) bytes offered
 *   d<in>,<out>,<flush>=<ret>,<consumed>:<hex produced>     one deflate call of the library
 *   i<in>,<out>=<ret>,<consumed>,<produced>                 one inflate call of the library
 *   p<hex>                    parser_feed while a compression layer is installed
 *   P<len>                    parser_feed without compression layer (length only)
 */
#include <stdio.h>
#include <string.h>
#include <zlib.h>

#include "strophe.h"
#include "common.h"
#include "parser.h"

static void hx(const unsigned char *b, size_t n)
{
    static const char d[] = "0123456789abcdef";
    size_t i;
    if (n == 0) { putchar('-'); return; }
    for (i = 0; i < n; i++) { putchar(d[b[i] >> 4]); putchar(d[b[i] & 15]); }
}

int __real_conn_interface_write(struct conn_interface *intf, const void *buff, size_t len);
int __wrap_conn_interface_write(struct conn_interface *intf, const void *buff, size_t len)
{
    xmpp_conn_t *conn = intf->conn;
    int top = intf == &conn->intf;
    int ret = __real_conn_interface_write(intf, buff, len);
    if (conn->compression.state) {
        if (top) printf("w%zu=%d ", len, ret);
        else { printf("n%zu=%d:", len, ret); hx(buff, len); putchar(' '); }
    }
    return ret;
}

int __real_parser_feed(parser_t *parser, char *chunk, int len);
static xmpp_conn_t *feeding;
int __wrap_parser_feed(parser_t *parser, char *chunk, int len)
{
    /* which connection?  the only caller is xmpp_run_once, which passes conn->parser; the hook cannot
       see the connection, so it looks at the context-free fact "some connection has a compression layer"
       recorded by the write/inflate hooks: good enough for single-connection scenarios */
    if (feeding && feeding->compression.state && feeding->parser == parser) { putchar('p'); hx((unsigned char *)chunk, (size_t)len); putchar(' '); }
    else printf("P%d ", len);
    return __real_parser_feed(parser, chunk, len);
}

int __real_deflate(z_streamp strm, int flush);
int __wrap_deflate(z_streamp strm, int flush)
{
    if (strm->opaque) {
        uInt in0 = strm->avail_in, out0 = strm->avail_out;
        Bytef *o = strm->next_out;
        int ret = __real_deflate(strm, flush);
        printf("d%u,%u,%d=%d,%u:", in0, out0, flush, ret, in0 - strm->avail_in);
        hx(o, (size_t)(out0 - strm->avail_out));
        putchar(' ');
        return ret;
    }
    return __real_deflate(strm, flush);
}

int __real_inflate(z_streamp strm, int flush);
int __wrap_inflate(z_streamp strm, int flush)
{
    if (strm->opaque) {
        uInt in0 = strm->avail_in, out0 = strm->avail_out;
        int ret = __real_inflate(strm, flush);
        printf("i%u,%u=%d,%u,%u ", in0, out0, ret, in0 - strm->avail_in, out0 - strm->avail_out);
        return ret;
    }
    return __real_inflate(strm, flush);
}

void __real_xmpp_run_once(xmpp_ctx_t *ctx, unsigned long timeout);
void __wrap_xmpp_run_once(xmpp_ctx_t *ctx, unsigned long timeout)
{
    /* remember the (single) connection of the scenario for the parser hook */
    feeding = ctx->connlist ? ctx->connlist->conn : NULL;
    __real_xmpp_run_once(ctx, timeout);
    feeding = NULL;
    fputs("| ", stdout);
}

/* end of the hook records: simworld prints its trace with puts() after xmpp_ctx_free() */
void __real_xmpp_ctx_free(xmpp_ctx_t *ctx);
void __wrap_xmpp_ctx_free(xmpp_ctx_t *ctx)
{
    __real_xmpp_ctx_free(ctx);
    fputs("# ", stdout);
}
