/* simworld: deterministic simulated world for the connection-level properties.
 *
 * The unmodified library objects are linked with GNU ld --wrap for
 *   gettimeofday select socket connect fcntl getpeername getaddrinfo freeaddrinfo
 *   send recv close res_query setsockopt usleep getrandom
 * and with this file's implementation of tls.h instead of tls_openssl.c.
 *
 * One scenario per input line ("cmd;cmd;..."), one trace line per scenario.
 * See harness/SIMWORLD.md for the command and trace vocabulary.
 */
#define _GNU_SOURCE
#include <errno.h>
#include <fcntl.h>
#include <netdb.h>
#include <stdarg.h>
#include <stdio.h>
#include <stdlib.h>
#include <string.h>
#include <sys/select.h>
#include <sys/socket.h>
#include <sys/time.h>
#include <netinet/in.h>
#include <arpa/inet.h>
#include <unistd.h>
#include <zlib.h>

#include "strophe.h"
#include "common.h"
#include "tls.h"
#include "parser.h"

/* `log`: a logger at DEBUG level that reads every byte of every message (so that the sanitizers see what the
   library's format strings read), and prints nothing */
static volatile unsigned long sw_log_sink;
static void sw_logger(void *ud, xmpp_log_level_t level, const char *area, const char *msg)
{
    const char *c;
    (void)ud; (void)level;
    for (c = area; *c; c++) sw_log_sink += (unsigned char)*c;
    for (c = msg; *c; c++) sw_log_sink += (unsigned char)*c;
}
static xmpp_log_t sw_log = {sw_logger, NULL};

/* ---------------------------------------------------------------- trace buffer */
static char *tr_buf;
static size_t tr_len, tr_cap;
static void tr(const char *fmt, ...)
{
    va_list ap;
    int n;
    if (tr_cap - tr_len < 8192) {
        tr_cap = tr_cap ? tr_cap * 2 : 1 << 16;
        tr_buf = realloc(tr_buf, tr_cap);
    }
    va_start(ap, fmt);
    n = vsnprintf(tr_buf + tr_len, tr_cap - tr_len, fmt, ap);
    va_end(ap);
    if (n > 0) tr_len += (size_t)n;
}
static void tr_hex(const unsigned char *b, size_t n)
{
    size_t i;
    if (tr_cap - tr_len < 2 * n + 16) {
        tr_cap = (tr_cap + 2 * n + 16) * 2;
        tr_buf = realloc(tr_buf, tr_cap);
    }
    if (n == 0) { tr_buf[tr_len++] = '-'; tr_buf[tr_len] = 0; return; }
    for (i = 0; i < n; i++) {
        static const char hx[] = "0123456789abcdef";
        tr_buf[tr_len++] = hx[b[i] >> 4];
        tr_buf[tr_len++] = hx[b[i] & 15];
    }
    tr_buf[tr_len] = 0;
}

static int hexval(int c)
{
    if (c >= '0' && c <= '9') return c - '0';
    if (c >= 'a' && c <= 'f') return c - 'a' + 10;
    if (c >= 'A' && c <= 'F') return c - 'A' + 10;
    return 0;
}
/* returns malloc'd, NUL-terminated (extra byte) buffer */
static unsigned char *unhex(const char *s, size_t *len)
{
    size_t n = (s && strcmp(s, "-")) ? strlen(s) / 2 : 0, i;
    unsigned char *b = malloc(n + 1);
    for (i = 0; i < n; i++) b[i] = (unsigned char)(hexval(s[2 * i]) * 16 + hexval(s[2 * i + 1]));
    b[n] = 0;
    if (len) *len = n;
    return b;
}

/* ---------------------------------------------------------------- tracking allocator */
#define MAXBLK 65536
static void *blk_ptr[MAXBLK];
static size_t blk_sz[MAXBLK];
static int blk_n;
static long alloc_calls, alloc_fail_at = -1, alloc_errors;
static int blk_find(void *p)
{
    int i;
    for (i = blk_n - 1; i >= 0; i--) if (blk_ptr[i] == p) return i;
    return -1;
}
static void *sw_alloc(size_t size, void *ud)
{
    void *p;
    (void)ud;
    alloc_calls++;
    if (alloc_fail_at >= 0 && alloc_calls == alloc_fail_at) return NULL;
    p = malloc(size);
    if (!p) return NULL;
    memset(p, 0xA5, size);
    if (blk_n < MAXBLK) { blk_ptr[blk_n] = p; blk_sz[blk_n] = size; blk_n++; }
    return p;
}
static void sw_free(void *p, void *ud)
{
    int i;
    (void)ud;
    if (!p) return;
    i = blk_find(p);
    if (i < 0) { alloc_errors++; tr("ALLOCERR:free-unknown "); return; }
    blk_ptr[i] = blk_ptr[blk_n - 1]; blk_sz[i] = blk_sz[blk_n - 1]; blk_n--;
    free(p);
}
static void *sw_realloc(void *p, size_t size, void *ud)
{
    int i;
    void *q;
    if (!p) return sw_alloc(size, ud);
    if (size == 0) { sw_free(p, ud); return NULL; }
    alloc_calls++;
    if (alloc_fail_at >= 0 && alloc_calls == alloc_fail_at) return NULL;
    i = blk_find(p);
    if (i < 0) { alloc_errors++; tr("ALLOCERR:realloc-unknown "); return NULL; }
    q = realloc(p, size);
    if (q) { blk_ptr[i] = q; blk_sz[i] = size; }
    return q;
}
static xmpp_mem_t sw_mem = {sw_alloc, sw_free, sw_realloc, NULL};

/* ---------------------------------------------------------------- world state */
static uint64_t now_ms;
static uint32_t rng_state;

enum ep_kind { EP_ACCEPT, EP_REFUSE, EP_LATE, EP_HANG, EP_IMMEDIATE };
#define MAXFD 64
#define FD_BASE 100
struct rxchunk { unsigned char *data; size_t len, off; int kind; /* 0 data, 1 close, 2 reset, 3 data already encoded, 4 data that ends the server's deflate stream (Z_FINISH) */ };
struct simfd {
    int used, closed, connected;
    enum ep_kind kind;
    struct rxchunk rx[512]; int rx_head, rx_tail;
    char tx[256][12]; int tx_head, tx_tail;
    unsigned char *wbuf; size_t wlen, wcap;   /* bytes accepted since the last flush to the trace */
    int wtls;
    int last_errno;
    int close_count;
    /* transparent XEP-0138 codec of the simulated server (active while the library has its
       compression layer installed on this connection) */
    z_stream zin, zout; int zin_on, zout_on;
};
static struct simfd fds[MAXFD];
static int nfds_used;
static enum ep_kind ep_script[64]; static int ep_n, ep_i;
/* an `ep` command is staged and takes effect at the next getaddrinfo(), i.e. when the library
   really builds a new candidate list (a refused connect call must not disturb a running attempt) */
static enum ep_kind ep_pending[64]; static int ep_pending_n = -1;
static int cur_fd = -1;  /* most recently created sim fd: target of rx/tx commands */

/* pending rx/tx given before a socket exists are kept here and moved to the next accepted fd */
static char *srv_answer; static size_t srv_answer_len; static int srv_fail = 1;
struct gai_rule { char host[300]; int fail; int n; };
static struct gai_rule gai_rules[16]; static int gai_n;

/* fake TLS script */
static int tls_verdicts[16], tls_v_n, tls_v_i;     /* 1 ok, 0 fail */
static int tlsnew_fail;
static char cb_type[32]; static unsigned char cb_data[128]; static size_t cb_len; static int cb_set;
static char *xaddrs[4]; static int xaddr_n;

static void wflush(struct simfd *f, int idx)
{
    if (f->wlen) {
        tr("%c%d:", f->wtls ? 'T' : 'W', idx);
        tr_hex(f->wbuf, f->wlen);
        tr(" ");
        f->wlen = 0;
    }
}
static void wflush_all(void)
{
    int i;
    for (i = 0; i < MAXFD; i++) if (fds[i].used) wflush(&fds[i], i);
}

static struct simfd *getfd(int fd)
{
    int i = fd - FD_BASE;
    if (i < 0 || i >= MAXFD || !fds[i].used) return NULL;
    return &fds[i];
}

struct _xmpp_conn_t;
static int fd_compressed(int fd);

/* ---------------------------------------------------------------- wrapped libc */
int __real_close(int fd);
int __real_fcntl(int fd, int cmd, ...);

int __wrap_gettimeofday(struct timeval *tv, void *tz)
{
    (void)tz;
    tv->tv_sec = (time_t)(now_ms / 1000);
    tv->tv_usec = (suseconds_t)((now_ms % 1000) * 1000);
    return 0;
}
int __wrap_usleep(useconds_t us) { (void)us; return 0; }
ssize_t __wrap_getrandom(void *buf, size_t n, unsigned int flags)
{
    size_t i;
    unsigned char *p = buf;
    (void)flags;
    for (i = 0; i < n; i++) {
        rng_state = (rng_state * 1103515245u + 12345u) & 0x7fffffffu;
        p[i] = (unsigned char)((rng_state >> 16) & 0xff);
    }
    return (ssize_t)n;
}
int __wrap_socket(int domain, int type, int protocol)
{
    int i;
    (void)domain; (void)type; (void)protocol;
    for (i = 0; i < MAXFD; i++) if (!fds[i].used) break;
    if (i == MAXFD) { errno = EMFILE; return -1; }
    memset(&fds[i], 0, sizeof(fds[i]));
    fds[i].used = 1;
    fds[i].kind = ep_i < ep_n ? ep_script[ep_i] : EP_ACCEPT;
    ep_i++;
    nfds_used++;
    cur_fd = i;
    return FD_BASE + i;
}
int __wrap_fcntl(int fd, int cmd, long arg)
{
    if (getfd(fd)) return 0;
    return __real_fcntl(fd, cmd, arg);
}
int __wrap_setsockopt(int fd, int level, int optname, const void *optval, socklen_t optlen)
{
    (void)fd; (void)level; (void)optname; (void)optval; (void)optlen;
    return 0;
}
static const char *ep_name(enum ep_kind k)
{
    switch (k) { case EP_ACCEPT: return "accept"; case EP_REFUSE: return "refuse"; case EP_LATE: return "late";
                 case EP_HANG: return "hang"; default: return "immediate"; }
}
int __wrap_connect(int fd, const struct sockaddr *sa, socklen_t len)
{
    struct simfd *f = getfd(fd);
    char ip[64] = "?";
    int port = 0;
    (void)len;
    if (!f) { errno = EBADF; return -1; }
    if (sa->sa_family == AF_INET) {
        inet_ntop(AF_INET, &((const struct sockaddr_in *)sa)->sin_addr, ip, sizeof(ip));
        port = ntohs(((const struct sockaddr_in *)sa)->sin_port);
    }
    tr("C%d:%s:%d=%s ", fd - FD_BASE, ip, port, ep_name(f->kind));
    switch (f->kind) {
    case EP_REFUSE: errno = ECONNREFUSED; return -1;
    case EP_IMMEDIATE: f->connected = 1; return 0;
    default: errno = EINPROGRESS; return -1;
    }
}
int __wrap_getpeername(int fd, struct sockaddr *sa, socklen_t *len)
{
    struct simfd *f = getfd(fd);
    (void)sa; (void)len;
    if (!f) { errno = EBADF; return -1; }
    if (f->kind == EP_ACCEPT || f->kind == EP_IMMEDIATE) { f->connected = 1; return 0; }
    errno = ENOTCONN;
    return -1;
}
int __wrap_close(int fd)
{
    struct simfd *f = getfd(fd);
    if (fd >= FD_BASE && fd < FD_BASE + MAXFD) {
        int i = fd - FD_BASE;
        if (!fds[i].used || fds[i].closed) { tr("CLOSEERR%d:double-close ", i); errno = EBADF; return -1; }
        wflush(f, i);
        f->closed = 1;
        f->close_count++;
        tr("X%d ", i);
        return 0;
    }
    return __real_close(fd);
}
ssize_t __wrap_send(int fd, const void *buf, size_t len, int flags)
{
    struct simfd *f = getfd(fd);
    size_t acc = len;
    (void)flags;
    if (!f || f->closed) { errno = EBADF; tr("SENDERR:bad-fd "); return -1; }
    if (f->tx_head != f->tx_tail) {
        const char *t = f->tx[f->tx_head % 256];
        f->tx_head++;
        if (!strcmp(t, "again")) { errno = EAGAIN; return -1; }
        if (!strcmp(t, "intr")) { errno = EINTR; return -1; }      /* interrupted before any byte: recoverable */
        if (!strcmp(t, "err")) { errno = EPIPE; f->last_errno = EPIPE; return -1; }
        if (t[0] == 'k') { acc = (size_t)atol(t + 1); if (acc > len) acc = len; }
        if (acc == 0 && len > 0) { errno = EAGAIN; return -1; }   /* (a zero-length write is accepted, as send(2) does) */
    }
    if (fd_compressed(fd)) {
        /* log what the server obtains by inflating the accepted bytes */
        unsigned char tmp[8192];
        int zr;
        if (!f->zin_on) { memset(&f->zin, 0, sizeof(f->zin)); inflateInit(&f->zin); f->zin_on = 1; }
        f->zin.next_in = (Bytef *)buf; f->zin.avail_in = (uInt)acc;
        do {
            size_t got;
            f->zin.next_out = tmp; f->zin.avail_out = sizeof(tmp);
            zr = inflate(&f->zin, Z_SYNC_FLUSH);
            got = sizeof(tmp) - f->zin.avail_out;
            if (f->wcap - f->wlen < got) { f->wcap = (f->wlen + got) * 2 + 64; f->wbuf = realloc(f->wbuf, f->wcap); }
            memcpy(f->wbuf + f->wlen, tmp, got); f->wlen += got;
            if (zr != Z_OK && zr != Z_BUF_ERROR && zr != Z_STREAM_END) { tr("ZERR:inflate=%d ", zr); break; }
        } while (f->zin.avail_in > 0 || f->zin.avail_out == 0);
        return (ssize_t)acc;
    }
    if (f->wcap - f->wlen < acc) { f->wcap = (f->wlen + acc) * 2 + 64; f->wbuf = realloc(f->wbuf, f->wcap); }
    if (acc) memcpy(f->wbuf + f->wlen, buf, acc);
    f->wlen += acc;
    return (ssize_t)acc;
}
ssize_t __wrap_recv(int fd, void *buf, size_t len, int flags)
{
    struct simfd *f = getfd(fd);
    struct rxchunk *c;
    size_t n;
    (void)flags;
    if (!f || f->closed) { errno = EBADF; tr("RECVERR:bad-fd "); return -1; }
    if (f->kind == EP_LATE && !f->connected) { errno = ECONNREFUSED; return -1; }
    if (f->rx_head == f->rx_tail) { errno = EAGAIN; return -1; }
    c = &f->rx[f->rx_head % 512];
    /* orderly close: recv returns 0 and leaves errno alone; the usual stale value on a
       non-blocking socket is EAGAIN from an earlier call */
    if (c->kind == 1) { f->rx_head++; errno = EAGAIN; return 0; }
    /* kinds 0 and 3 carry data */
    if (c->kind == 2) { f->rx_head++; errno = ECONNRESET; return -1; }
    if ((c->kind == 0 || c->kind == 4) && c->off == 0 && fd_compressed(fd)) {
        /* the simulated server deflates this chunk (once) before it goes out */
        uLong bound;
        unsigned char *z;
        if (!f->zout_on) { memset(&f->zout, 0, sizeof(f->zout)); deflateInit(&f->zout, Z_DEFAULT_COMPRESSION); f->zout_on = 1; }
        bound = deflateBound(&f->zout, (uLong)c->len) + 64;
        z = malloc(bound);
        f->zout.next_in = c->data; f->zout.avail_in = (uInt)c->len;
        f->zout.next_out = z; f->zout.avail_out = (uInt)bound;
        deflate(&f->zout, c->kind == 4 ? Z_FINISH : Z_SYNC_FLUSH);
        free(c->data);
        c->data = z; c->len = bound - f->zout.avail_out; c->kind = 3; /* 3 = data, already encoded */
    }
    n = c->len - c->off;
    if (n > len) n = len;
    memcpy(buf, c->data + c->off, n);
    c->off += n;
    if (c->off == c->len) { free(c->data); c->data = NULL; f->rx_head++; }
    return (ssize_t)n;
}
int __wrap_select(int nfds, fd_set *rf, fd_set *wf, fd_set *ef, struct timeval *tv)
{
    int fd, ready = 0;
    fd_set r, w;
    (void)ef; (void)tv;
    FD_ZERO(&r); FD_ZERO(&w);
    for (fd = FD_BASE; fd < nfds && fd < FD_BASE + MAXFD; fd++) {
        struct simfd *f = getfd(fd);
        if (!f || f->closed) continue;
        if (rf && FD_ISSET(fd, rf) && f->rx_head != f->rx_tail) { FD_SET(fd, &r); ready++; }
        if (wf && FD_ISSET(fd, wf)) {
            if (f->connected || f->kind == EP_ACCEPT || f->kind == EP_LATE || f->kind == EP_IMMEDIATE) { FD_SET(fd, &w); ready++; }
        }
    }
    if (rf) *rf = r;
    if (wf) *wf = w;
    return ready;
}
int __wrap_res_query(const char *dname, int class, int type, unsigned char *answer, int anslen)
{
    (void)class; (void)type;
    tr("Q:%s ", dname);
    if (srv_fail || !srv_answer) return -1;
    if ((int)srv_answer_len > anslen) { memcpy(answer, srv_answer, (size_t)anslen); return (int)srv_answer_len; }
    memcpy(answer, srv_answer, srv_answer_len);
    return (int)srv_answer_len;
}
int __wrap_getaddrinfo(const char *node, const char *service, const struct addrinfo *hints, struct addrinfo **res)
{
    int i, n = 1, fail = 0, k;
    struct addrinfo *head = NULL, **tail = &head;
    unsigned hsum = 0;
    const char *p;
    (void)hints;
    if (ep_pending_n >= 0) { memcpy(ep_script, ep_pending, sizeof(ep_script)); ep_n = ep_pending_n; ep_i = 0; ep_pending_n = -1; }
    for (i = 0; i < gai_n; i++) if (!strcmp(gai_rules[i].host, node)) { fail = gai_rules[i].fail; n = gai_rules[i].n; break; }
    tr("G:%s:%s=%s%d ", node, service, fail ? "fail" : "", fail ? 0 : n);
    if (fail || n == 0) { *res = NULL; return EAI_NONAME; }
    for (p = node; *p; p++) hsum = hsum * 31 + (unsigned char)*p;
    for (k = 0; k < n; k++) {
        struct addrinfo *ai = calloc(1, sizeof(*ai));
        struct sockaddr_in *sin = calloc(1, sizeof(*sin));
        sin->sin_family = AF_INET;
        sin->sin_port = htons((unsigned short)atoi(service));
        sin->sin_addr.s_addr = htonl(0x0a000000u | ((hsum & 0xff) << 8) | (unsigned)(k + 1));
        ai->ai_family = AF_INET; ai->ai_socktype = SOCK_STREAM; ai->ai_protocol = IPPROTO_TCP;
        ai->ai_addr = (struct sockaddr *)sin; ai->ai_addrlen = sizeof(*sin);
        *tail = ai; tail = &ai->ai_next;
    }
    *res = head;
    return 0;
}
void __wrap_freeaddrinfo(struct addrinfo *ai)
{
    while (ai) { struct addrinfo *n = ai->ai_next; free(ai->ai_addr); free(ai); ai = n; }
}

/* ---------------------------------------------------------------- fake TLS (tls.h) */
struct _tls { xmpp_conn_t *conn; int started; int err; };
void tls_initialize(void) {}
void tls_shutdown(void) {}
tls_t *tls_new(xmpp_conn_t *conn)
{
    tls_t *t;
    if (tlsnew_fail) return NULL;
    t = strophe_alloc(conn->ctx, sizeof(*t));
    if (!t) return NULL;
    t->conn = conn; t->started = 0; t->err = 0;
    return t;
}
void tls_free(tls_t *tls) { strophe_free(tls->conn->ctx, tls); }
char *tls_id_on_xmppaddr(xmpp_conn_t *conn, unsigned int n)
{
    if ((int)n < xaddr_n) return strophe_strdup(conn->ctx, xaddrs[n]);
    return NULL;
}
unsigned int tls_id_on_xmppaddr_num(xmpp_conn_t *conn) { (void)conn; return (unsigned)xaddr_n; }
xmpp_tlscert_t *tls_peer_cert(xmpp_conn_t *conn) { (void)conn; return NULL; }
int tls_set_credentials(tls_t *tls, const char *cafilename) { (void)tls; (void)cafilename; return -1; }
int tls_init_channel_binding(tls_t *tls, const char **binding_prefix, size_t *binding_prefix_len)
{
    (void)tls;
    if (!cb_set) return -1;
    *binding_prefix = cb_type;
    *binding_prefix_len = strlen(cb_type);
    return 0;
}
const void *tls_get_channel_binding_data(tls_t *tls, size_t *size)
{
    (void)tls;
    if (!cb_set) return NULL;
    *size = cb_len;
    return cb_data;
}
int tls_start(tls_t *tls)
{
    int ok = tls_v_i < tls_v_n ? tls_verdicts[tls_v_i] : 1;
    struct simfd *f = getfd(tls->conn->sock);
    tls_v_i++;
    if (f) wflush(f, tls->conn->sock - FD_BASE);
    tr("TLS:start=%s ", ok ? "ok" : "fail");
    if (ok) { tls->started = 1; if (f) f->wtls = 1; } else tls->err = EPROTO;
    return ok;
}
int tls_stop(tls_t *tls)
{
    struct simfd *f = getfd(tls->conn->sock);
    if (f) { wflush(f, tls->conn->sock - FD_BASE); f->wtls = 0; }
    tr("TLS:stop ");
    tls->started = 0;
    return 1;
}
int tls_pending(struct conn_interface *intf) { (void)intf; return 0; }
int tls_read(struct conn_interface *intf, void *buff, size_t len)
{
    int r = (int)__wrap_recv(intf->conn->sock, buff, len, 0);
    /* like SSL_read: an orderly close is an unrecoverable condition (SSL_ERROR_ZERO_RETURN) */
    if (intf->conn->tls) intf->conn->tls->err = r < 0 ? errno : (r == 0 ? ECONNRESET : 0);
    return r;
}
int tls_write(struct conn_interface *intf, const void *buff, size_t len)
{
    int r = (int)__wrap_send(intf->conn->sock, buff, len, 0);
    if (intf->conn->tls) intf->conn->tls->err = r < 0 ? errno : 0;
    return r;
}
int tls_clear_pending_write(struct conn_interface *intf) { (void)intf; return 0; }
int tls_error(struct conn_interface *intf) { return intf->conn->tls ? intf->conn->tls->err : EPROTO; }
int tls_is_recoverable(struct conn_interface *intf, int error) { (void)intf; return error == EAGAIN || error == EINTR || error == 0; }

/* ---------------------------------------------------------------- user program */
#define MAXCONN 4
static xmpp_ctx_t *ctx;
static xmpp_conn_t *conns[MAXCONN];
static int conn_released[MAXCONN];
static int nconn, cur;
static xmpp_sm_state_t *held_sm;

static int fd_compressed(int fd)
{
    int i;
    for (i = 0; i < nconn; i++)
        if (!conn_released[i] && conns[i]->sock == fd && conns[i]->state != XMPP_STATE_DISCONNECTED)
            return conns[i]->intf.read != sock_intf.read && conns[i]->intf.read != tls_intf.read;
    return 0;
}

static int conn_index(xmpp_conn_t *c)
{
    int i;
    for (i = 0; i < nconn; i++) if (conns[i] == c) return i;
    return -1;
}

/* scripted handlers */
#define MAXH 24
struct hdef {
    int used, kind;            /* 0 stanza, 1 id, 2 timed, 3 global timed */
    char ns[128], name[64], type[32], id[64];
    unsigned long period;
    char rets[32];             /* return values per invocation, e.g. "110"; last one repeats */
    char actions[512];         /* ','-separated: add:<h> del:<h> send:<hex> sendraw:<hex> disc */
    int calls;
};
static struct hdef hdefs[MAXH];
static void run_actions(xmpp_conn_t *conn, const char *actions);

static int scripted_ret(struct hdef *h)
{
    size_t n = strlen(h->rets);
    int idx = h->calls - 1;
    if (n == 0) return 1;
    if ((size_t)idx >= n) idx = (int)n - 1;
    return h->rets[idx] == '1';
}
static int sw_stanza_handler(xmpp_conn_t *conn, xmpp_stanza_t *stanza, void *ud)
{
    struct hdef *h = ud;
    wflush_all();
    const char *name = xmpp_stanza_get_name(stanza);
    const char *id = xmpp_stanza_get_id(stanza);
    h->calls++;
    tr("H%d@%llu:%s%s%s ", (int)(h - hdefs), (unsigned long long)now_ms, name ? name : "?", id ? "#" : "", id ? id : "");
    run_actions(conn, h->actions);
    return scripted_ret(h);
}
static int sw_timed_handler(xmpp_conn_t *conn, void *ud)
{
    struct hdef *h = ud;
    wflush_all();
    h->calls++;
    tr("H%d@%llu:timed ", (int)(h - hdefs), (unsigned long long)now_ms);
    run_actions(conn, h->actions);
    return scripted_ret(h);
}
static int sw_global_handler(xmpp_ctx_t *c, void *ud)
{
    struct hdef *h = ud;
    (void)c;
    h->calls++;
    tr("H%d@%llu:global ", (int)(h - hdefs), (unsigned long long)now_ms);
    return scripted_ret(h);
}
static void h_register(xmpp_conn_t *conn, int k)
{
    struct hdef *h = &hdefs[k];
    if (!h->used) return;
    switch (h->kind) {
    case 0: xmpp_handler_add(conn, sw_stanza_handler, h->ns[0] ? h->ns : NULL, h->name[0] ? h->name : NULL,
                             h->type[0] ? h->type : NULL, h); break;
    case 1: xmpp_id_handler_add(conn, sw_stanza_handler, h->id, h); break;
    case 2: xmpp_timed_handler_add(conn, sw_timed_handler, h->period, h); break;
    case 3: xmpp_global_timed_handler_add(ctx, sw_global_handler, h->period, h); break;
    }
}
static void do_send_text(xmpp_conn_t *conn, const char *hex, int mode)
{
    size_t n;
    unsigned char *b = unhex(hex, &n);
    if (mode == 0) xmpp_send_raw_string(conn, "%s", (char *)b);
    else if (mode == 1) xmpp_send_raw(conn, (char *)b, n);
    else {
        xmpp_stanza_t *st = xmpp_stanza_new_from_string(ctx, (char *)b);
        if (st) { xmpp_send(conn, st); xmpp_stanza_release(st); } else tr("SENDST:parse-failed ");
    }
    free(b);
}
static void run_actions(xmpp_conn_t *conn, const char *actions)
{
    char tmp[512], *save = NULL, *a;
    if (!actions[0]) return;
    snprintf(tmp, sizeof(tmp), "%s", actions);
    for (a = strtok_r(tmp, ",", &save); a; a = strtok_r(NULL, ",", &save)) {
        if (!strncmp(a, "add:", 4)) h_register(conn, atoi(a + 4));
        else if (!strncmp(a, "del:", 4)) {
            struct hdef *h = &hdefs[atoi(a + 4)];
            /* the public delete functions take the callback only; all scripted handlers of a kind
               share one callback, so deletion by identity uses the internal list directly where
               the public API cannot express it: we use the public API semantics (delete every
               registration of that callback with matching id for id handlers) */
            if (h->kind == 1) xmpp_id_handler_delete(conn, sw_stanza_handler, h->id);
            else if (h->kind == 0) xmpp_handler_delete(conn, sw_stanza_handler);
            else if (h->kind == 2) xmpp_timed_handler_delete(conn, sw_timed_handler);
        } else if (!strncmp(a, "send:", 5)) do_send_text(conn, a + 5, 0);
        else if (!strncmp(a, "sendraw:", 8)) do_send_text(conn, a + 8, 1);
        else if (!strncmp(a, "sendst:", 7)) do_send_text(conn, a + 7, 2);
        else if (!strcmp(a, "disc")) xmpp_disconnect(conn);
        else if (!strcmp(a, "stop")) xmpp_stop(ctx);
    }
}

static char on_connect_actions[512], on_disconnect_actions[512];
static const char *errname(int e)
{
    static char b[16];
    switch (e) {
    case 0: return "0"; case ECONNRESET: return "ECONNRESET"; case ECONNABORTED: return "ECONNABORTED";
    case ETIMEDOUT: return "ETIMEDOUT"; case ECONNREFUSED: return "ECONNREFUSED"; case EPIPE: return "EPIPE";
    case EPROTO: return "EPROTO"; case ENOTCONN: return "ENOTCONN"; case -1: return "-1";
    default: snprintf(b, sizeof(b), "E%d", e); return b;
    }
}
static void sw_conn_handler(xmpp_conn_t *conn, xmpp_conn_event_t ev, int error, xmpp_stream_error_t *se, void *ud)
{
    int ci = conn_index(conn);
    wflush_all();
    (void)ud;
    switch (ev) {
    case XMPP_CONN_CONNECT:
        tr("E%d:connect(is=%d%d%d,sec=%d) ", ci, xmpp_conn_is_connecting(conn), xmpp_conn_is_connected(conn),
           xmpp_conn_is_disconnected(conn), xmpp_conn_is_secured(conn));
        run_actions(conn, on_connect_actions);
        break;
    case XMPP_CONN_RAW_CONNECT:
        tr("E%d:raw_connect ", ci);
        run_actions(conn, on_connect_actions);
        break;
    case XMPP_CONN_DISCONNECT:
        tr("E%d:disconnect(err=%s,is=%d%d%d", ci, errname(error), xmpp_conn_is_connecting(conn),
           xmpp_conn_is_connected(conn), xmpp_conn_is_disconnected(conn));
        if (se) {
            tr(",se=%d,text=", (int)se->type);
            if (se->text) tr_hex((unsigned char *)se->text, strlen(se->text)); else tr("null");
        }
        tr(") ");
        run_actions(conn, on_disconnect_actions);
        break;
    default:
        tr("E%d:fail ", ci);
    }
}
static void sw_sm_cb(xmpp_conn_t *conn, void *ud, const unsigned char *st, size_t len)
{
    (void)ud;
    tr("SM%d:", conn_index(conn));
    if (st) tr_hex(st, len); else tr("null");
    tr(" ");
}

/* ---------------------------------------------------------------- scenario interpreter */
static void world_reset(void)
{
    int i;
    for (i = 0; i < MAXFD; i++) {
        int k;
        if (!fds[i].used) continue;
        for (k = fds[i].rx_head; k != fds[i].rx_tail; k++) free(fds[i].rx[k % 512].data);
        if (fds[i].zin_on) inflateEnd(&fds[i].zin);
        if (fds[i].zout_on) deflateEnd(&fds[i].zout);
        free(fds[i].wbuf);
    }
    memset(fds, 0, sizeof(fds));
    nfds_used = 0; ep_n = ep_i = 0; ep_pending_n = -1; cur_fd = -1;
    free(srv_answer); srv_answer = NULL; srv_answer_len = 0; srv_fail = 1;
    gai_n = 0;
    tls_v_n = tls_v_i = 0; tlsnew_fail = 0; cb_set = 0;
    for (i = 0; i < xaddr_n; i++) free(xaddrs[i]);
    xaddr_n = 0;
    now_ms = 1000000; rng_state = 1;
    nconn = 0; cur = 0; held_sm = NULL;
    memset(conn_released, 0, sizeof(conn_released));
    memset(hdefs, 0, sizeof(hdefs));
    on_connect_actions[0] = on_disconnect_actions[0] = 0;
    alloc_calls = 0; alloc_fail_at = -1; alloc_errors = 0; blk_n = 0;
    tr_len = 0; if (tr_buf) tr_buf[0] = 0;
}

static void push_rx(struct simfd *f, int kind, unsigned char *data, size_t len)
{
    struct rxchunk *c = &f->rx[f->rx_tail % 512];
    c->kind = kind; c->data = data; c->len = len; c->off = 0;
    f->rx_tail++;
}

static void dump_queue(xmpp_conn_t *c)
{
    xmpp_send_queue_t *e;
    tr("Q[len=%d,user=%d:", c->send_queue_len, c->send_queue_user_len);
    for (e = c->send_queue_head; e; e = e->next)
        tr("(%s%s,w=%zu/%zu,wip=%d)", (e->owner & XMPP_QUEUE_USER) ? "U" : "L", (e->owner & XMPP_QUEUE_SM) ? "s" : "", e->written, e->len, e->wip);
    tr("] ");
    if (c->sm_state) {
        tr("SMQ[sent=%u,handled=%u,en=%d:", c->sm_state->sm_sent_nr, c->sm_state->sm_handled_nr, c->sm_state->sm_enabled);
        for (e = c->sm_state->sm_queue.head; e; e = e->next) tr("(h=%u,n=%zu)", e->sm_h, e->len);
        tr("] ");
    }
}

static void exec_cmd(char *cmd)
{
    char *argv[8];
    int argc = 0;
    char *save = NULL, *t;
    xmpp_conn_t *c;
    for (t = strtok_r(cmd, " ", &save); t && argc < 8; t = strtok_r(NULL, " ", &save)) argv[argc++] = t;
    if (argc == 0) return;
    c = (cur < nconn && !conn_released[cur]) ? conns[cur] : NULL;
#define NEEDC if (!c) { tr("NOCONN:%s ", argv[0]); return; }
    if (!strcmp(argv[0], "conn")) {
        if (nconn < MAXCONN) { conns[nconn] = xmpp_conn_new(ctx); cur = nconn; nconn++; }
    } else if (!strcmp(argv[0], "use")) { cur = atoi(argv[1]);
    } else if (!strcmp(argv[0], "jid")) { NEEDC unsigned char *b = unhex(argv[1], NULL); xmpp_conn_set_jid(c, (char *)b); free(b);
    } else if (!strcmp(argv[0], "pass")) { NEEDC unsigned char *b = unhex(argv[1], NULL); xmpp_conn_set_pass(c, (char *)b); free(b);
    } else if (!strcmp(argv[0], "cert")) { NEEDC
        /* `cert`: PEM certificate + key; `cert p12`: a PKCS#12 file (certificate argument only, no key) */
        if (argc > 1 && !strcmp(argv[1], "p12")) xmpp_conn_set_client_cert(c, "cert.p12", NULL);
        else xmpp_conn_set_client_cert(c, "cert.pem", "key.pem");
    } else if (!strcmp(argv[0], "flags")) { NEEDC
        int rc = xmpp_conn_set_flags(c, atol(argv[1]));
        tr("F=%d/%ld ", rc, xmpp_conn_get_flags(c));
    } else if (!strcmp(argv[0], "smcb")) { NEEDC xmpp_conn_set_sm_callback(c, sw_sm_cb, NULL);
    } else if (!strcmp(argv[0], "connect")) { NEEDC
        int rc = -99;
        unsigned char *host = (argc > 2 && strcmp(argv[2], "-")) ? unhex(argv[2], NULL) : NULL;
        unsigned short port = argc > 3 ? (unsigned short)atoi(argv[3]) : 0;
        if (!strcmp(argv[1], "client")) rc = xmpp_connect_client(c, (char *)host, port, sw_conn_handler, NULL);
        else if (!strcmp(argv[1], "raw")) rc = xmpp_connect_raw(c, (char *)host, port, sw_conn_handler, NULL);
        else if (!strcmp(argv[1], "component")) rc = xmpp_connect_component(c, (char *)host, port, sw_conn_handler, NULL);
        free(host);
        tr("R=%d ", rc);
    } else if (!strcmp(argv[0], "openstream")) { NEEDC tr("O=%d ", xmpp_conn_open_stream_default(c));
    } else if (!strcmp(argv[0], "starttls")) { NEEDC tr("ST=%d ", xmpp_conn_tls_start(c));
    } else if (!strcmp(argv[0], "srv")) {
        if (!strcmp(argv[1], "fail")) srv_fail = 1;
        else { free(srv_answer); srv_answer = (char *)unhex(argv[1], &srv_answer_len); srv_fail = 0; }
    } else if (!strcmp(argv[0], "gai")) {
        unsigned char *h = unhex(argv[1], NULL);
        { int gi; for (gi = 0; gi < gai_n; gi++) if (!strcmp(gai_rules[gi].host, (char *)h)) { gai_rules[gi] = gai_rules[gai_n - 1]; gai_n--; break; } }
        if (gai_n < 16) {
            snprintf(gai_rules[gai_n].host, sizeof(gai_rules[gai_n].host), "%s", (char *)h);
            gai_rules[gai_n].fail = !strcmp(argv[2], "fail");
            gai_rules[gai_n].n = gai_rules[gai_n].fail ? 0 : atoi(argv[2]);
            gai_n++;
        }
        free(h);
    } else if (!strcmp(argv[0], "ep")) {
        char *s2 = NULL, *e;
        ep_pending_n = 0; /* a new script replaces what is left of the previous one (at the next getaddrinfo) */
        for (e = strtok_r(argv[1], ",", &s2); e && ep_pending_n < 64; e = strtok_r(NULL, ",", &s2))
            ep_pending[ep_pending_n++] = !strcmp(e, "refuse") ? EP_REFUSE : !strcmp(e, "late") ? EP_LATE : !strcmp(e, "hang") ? EP_HANG
                              : !strcmp(e, "immediate") ? EP_IMMEDIATE : EP_ACCEPT;
    } else if (!strcmp(argv[0], "run")) {
        int n = argc > 1 ? atoi(argv[1]) : 1, i;
        for (i = 0; i < n; i++) { xmpp_run_once(ctx, 0); wflush_all(); tr("| "); }
    } else if (!strcmp(argv[0], "clock")) { now_ms += (uint64_t)atoll(argv[1]);
    } else if (!strcmp(argv[0], "rx") || !strcmp(argv[0], "rxfin") || !strcmp(argv[0], "rxclose") || !strcmp(argv[0], "rxreset")) {
        struct simfd *f = cur_fd >= 0 ? &fds[cur_fd] : NULL;
        if (c && getfd(c->sock)) f = getfd(c->sock);
        if (!f) { tr("NOFD "); return; }
        if (!strcmp(argv[0], "rx") || !strcmp(argv[0], "rxfin")) { size_t n; unsigned char *b = unhex(argv[1], &n); push_rx(f, argv[0][2] == 'f' ? 4 : 0, b, n); }
        else push_rx(f, !strcmp(argv[0], "rxclose") ? 1 : 2, NULL, 0);
    } else if (!strcmp(argv[0], "tx")) {
        struct simfd *f = cur_fd >= 0 ? &fds[cur_fd] : NULL;
        char *s2 = NULL, *e;
        if (c && getfd(c->sock)) f = getfd(c->sock);
        if (!f) { tr("NOFD "); return; }
        for (e = strtok_r(argv[1], ",", &s2); e; e = strtok_r(NULL, ",", &s2)) {
            snprintf(f->tx[f->tx_tail % 256], 12, "%s", e);
            f->tx_tail++;
        }
    } else if (!strcmp(argv[0], "send")) { NEEDC do_send_text(c, argv[1], 0);
    } else if (!strcmp(argv[0], "sendraw")) { NEEDC
        if (argc > 2) {
            /* sendraw <hex> <n>: a slice of a longer NUL-terminated buffer, xmpp_send_raw(conn, buf, n) with n <= strlen(buf) */
            size_t n, want = (size_t)strtoul(argv[2], NULL, 10);
            unsigned char *b = unhex(argv[1], &n);
            xmpp_send_raw(c, (char *)b, want < n ? want : n);
            free(b);
        } else do_send_text(c, argv[1], 1);
    } else if (!strcmp(argv[0], "sendst")) { NEEDC do_send_text(c, argv[1], 2);
    } else if (!strcmp(argv[0], "drop")) { NEEDC
        char *r = xmpp_conn_send_queue_drop_element(c, argv[1][0] == 'o' ? XMPP_QUEUE_OLDEST : XMPP_QUEUE_YOUNGEST);
        tr("D=");
        if (r) { tr_hex((unsigned char *)r, strlen(r)); xmpp_free(ctx, r); } else tr("null");
        tr(" ");
    } else if (!strcmp(argv[0], "qlen")) { NEEDC tr("L=%d ", xmpp_conn_send_queue_len(c));
    } else if (!strcmp(argv[0], "dumpq")) { NEEDC dump_queue(c);
    } else if (!strcmp(argv[0], "is")) { NEEDC
        tr("S=%d%d%d,sec=%d ", xmpp_conn_is_connecting(c), xmpp_conn_is_connected(c), xmpp_conn_is_disconnected(c), xmpp_conn_is_secured(c));
    } else if (!strcmp(argv[0], "bound")) { NEEDC const char *b = xmpp_conn_get_bound_jid(c); tr("B=%s ", b ? b : "null");
    } else if (!strcmp(argv[0], "disc")) { NEEDC xmpp_disconnect(c);
    } else if (!strcmp(argv[0], "release")) { NEEDC
        int r = xmpp_conn_release(c);
        wflush_all();
        tr("REL=%d ", r);
        if (r) conn_released[cur] = 1;
    } else if (!strcmp(argv[0], "clone")) { NEEDC xmpp_conn_clone(c);
    } else if (!strcmp(argv[0], "smpoke")) { NEEDC
        /* test device: set the SM counters of the current connection directly ("-" = leave as is) */
        if (c->sm_state) {
            if (argc > 1 && strcmp(argv[1], "-")) c->sm_state->sm_sent_nr = (uint32_t)strtoul(argv[1], NULL, 10);
            if (argc > 2 && strcmp(argv[2], "-")) c->sm_state->sm_handled_nr = (uint32_t)strtoul(argv[2], NULL, 10);
        }
    } else if (!strcmp(argv[0], "getsm")) { NEEDC held_sm = xmpp_conn_get_sm_state(c); tr("GETSM=%d ", held_sm != NULL);
    } else if (!strcmp(argv[0], "setsm")) { NEEDC
        if (held_sm) { int rc = xmpp_conn_set_sm_state(c, held_sm); tr("SETSM=%d ", rc); if (rc == 0) held_sm = NULL; } else tr("SETSM=none ");
    } else if (!strcmp(argv[0], "freesm")) { if (held_sm) { xmpp_free_sm_state(held_sm); held_sm = NULL; }
    } else if (!strcmp(argv[0], "restore")) { NEEDC
        size_t n; unsigned char *b = unhex(argv[1], &n);
        unsigned char *exact = malloc(n ? n : 1);
        memcpy(exact, b, n);
        tr("RESTORE=%d ", xmpp_conn_restore_sm_state(c, exact, n));
        free(exact); free(b);
    } else if (!strcmp(argv[0], "tls")) { if (tls_v_n < 16) tls_verdicts[tls_v_n++] = !strcmp(argv[1], "ok");
    } else if (!strcmp(argv[0], "tlsnew")) { tlsnew_fail = !strcmp(argv[1], "fail");
    } else if (!strcmp(argv[0], "cb")) {
        unsigned char *ty = unhex(argv[1], NULL); size_t n; unsigned char *d = unhex(argv[2], &n);
        snprintf(cb_type, sizeof(cb_type), "%s", (char *)ty);
        if (n > sizeof(cb_data)) n = sizeof(cb_data);
        memcpy(cb_data, d, n); cb_len = n; cb_set = 1;
        free(ty); free(d);
    } else if (!strcmp(argv[0], "xaddr")) { if (xaddr_n < 4) xaddrs[xaddr_n++] = (char *)unhex(argv[1], NULL);
    } else if (!strcmp(argv[0], "log")) { ctx->log = &sw_log;   /* every log message is formatted and read (no output) */
    } else if (!strcmp(argv[0], "rng")) { rng_state = (uint32_t)strtoul(argv[1], NULL, 10);
    } else if (!strcmp(argv[0], "allocfail")) { alloc_fail_at = alloc_calls + atol(argv[1]);
    } else if (!strcmp(argv[0], "hdef")) {
        /* hdef <k> s <ns-hex|-> <name|-> <type|-> <rets> [actions]
           hdef <k> i <id> <rets> [actions] ; hdef <k> t <period> <rets> [actions] ; hdef <k> g <period> <rets> */
        int k = atoi(argv[1]);
        struct hdef *h = &hdefs[k];
        memset(h, 0, sizeof(*h));
        h->used = 1;
        if (argv[2][0] == 's') {
            h->kind = 0;
            if (strcmp(argv[3], "-")) { unsigned char *b = unhex(argv[3], NULL); snprintf(h->ns, sizeof(h->ns), "%s", (char *)b); free(b); }
            if (strcmp(argv[4], "-")) snprintf(h->name, sizeof(h->name), "%s", argv[4]);
            if (strcmp(argv[5], "-")) snprintf(h->type, sizeof(h->type), "%s", argv[5]);
            snprintf(h->rets, sizeof(h->rets), "%s", argv[6]);
            if (argc > 7) snprintf(h->actions, sizeof(h->actions), "%s", argv[7]);
        } else if (argv[2][0] == 'i') {
            h->kind = 1; snprintf(h->id, sizeof(h->id), "%s", argv[3]); snprintf(h->rets, sizeof(h->rets), "%s", argv[4]);
            if (argc > 5) snprintf(h->actions, sizeof(h->actions), "%s", argv[5]);
        } else {
            h->kind = argv[2][0] == 't' ? 2 : 3; h->period = strtoul(argv[3], NULL, 10); snprintf(h->rets, sizeof(h->rets), "%s", argv[4]);
            if (argc > 5) snprintf(h->actions, sizeof(h->actions), "%s", argv[5]);
        }
    } else if (!strcmp(argv[0], "hadd")) { NEEDC h_register(c, atoi(argv[1]));
    } else if (!strcmp(argv[0], "hdel")) { NEEDC char a[32]; snprintf(a, sizeof(a), "del:%s", argv[1]); run_actions(c, a);
    } else if (!strcmp(argv[0], "onconnect")) { snprintf(on_connect_actions, sizeof(on_connect_actions), "%s", argv[1]);
    } else if (!strcmp(argv[0], "ondisconnect")) { snprintf(on_disconnect_actions, sizeof(on_disconnect_actions), "%s", argv[1]);
    } else tr("BADCMD:%s ", argv[0]);
}

int main(void)
{
    char *line = NULL;
    size_t cap = 0;
    ssize_t r;
    while ((r = getline(&line, &cap, stdin)) >= 0) {
        char *save = NULL, *cmd;
        int i;
        while (r > 0 && (line[r - 1] == '\n' || line[r - 1] == '\r')) line[--r] = 0;
        world_reset();
        ctx = xmpp_ctx_new(&sw_mem, NULL);
        for (cmd = strtok_r(line, ";", &save); cmd; cmd = strtok_r(NULL, ";", &save)) exec_cmd(cmd);
        /* end of scenario: release everything and check the allocator */
        if (held_sm) { xmpp_free_sm_state(held_sm); held_sm = NULL; }
        for (i = 0; i < nconn; i++)
            if (!conn_released[i]) {
                int guard = 0;
                cur = i;
                while (!xmpp_conn_release(conns[i]) && guard++ < 256) ;
                conn_released[i] = 1;
            }
        wflush_all();
        xmpp_ctx_free(ctx);
        tr("END live=%d allocerr=%ld", blk_n, alloc_errors);
        {
            int k, opens = 0, closes = 0;
            for (k = 0; k < MAXFD; k++) if (fds[k].used) { opens++; closes += fds[k].close_count; }
            tr(" fds=%d/%d", closes, opens);
        }
        puts(tr_buf ? tr_buf : "");
        fflush(stdout);
    }
    return 0;
}
