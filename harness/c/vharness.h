/* Shared helpers for the line-oriented C drivers. */
#ifndef VHARNESS_H
#define VHARNESS_H
#include <stdio.h>
#include <stdlib.h>
#include <string.h>
#include <stdint.h>
#include "strophe.h"

static unsigned char vh_poison = 0xAA;
static long vh_live = 0;

static void *vh_alloc(size_t size, void *ud)
{
    void *p = malloc(size);
    (void)ud;
    if (p) { memset(p, vh_poison, size); vh_live++; }
    return p;
}
static void vh_free(void *p, void *ud)
{
    (void)ud;
    if (p) vh_live--;
    free(p);
}
static void *vh_realloc(void *p, size_t size, void *ud)
{
    (void)ud;
    if (!p) return vh_alloc(size, ud);
    if (size == 0) { vh_free(p, ud); return NULL; }
    return realloc(p, size);
}
static xmpp_mem_t vh_mem = {vh_alloc, vh_free, vh_realloc, NULL};

static int vh_hexval(int c)
{
    if (c >= '0' && c <= '9') return c - '0';
    if (c >= 'a' && c <= 'f') return c - 'a' + 10;
    if (c >= 'A' && c <= 'F') return c - 'A' + 10;
    return -1;
}
/* decode hex into an exact-size malloc'd buffer (no terminator, so ASan traps over-reads);
   "-" denotes the empty string. */
static unsigned char *vh_unhex(const char *s, size_t *len)
{
    size_t n = strlen(s), i;
    unsigned char *b;
    if (n == 1 && s[0] == '-') n = 0;
    n /= 2;
    b = malloc(n ? n : 1);
    for (i = 0; i < n; i++) b[i] = (unsigned char)(vh_hexval(s[2 * i]) * 16 + vh_hexval(s[2 * i + 1]));
    *len = n;
    return b;
}
static void vh_puthex(const unsigned char *b, size_t n)
{
    size_t i;
    if (n == 0) { putchar('-'); return; }
    for (i = 0; i < n; i++) printf("%02x", b[i]);
}
/* read one line (any length) */
static char *vh_getline(void)
{
    static char *buf = NULL; static size_t cap = 0;
    ssize_t r = getline(&buf, &cap, stdin);
    if (r < 0) return NULL;
    while (r > 0 && (buf[r - 1] == '\n' || buf[r - 1] == '\r')) buf[--r] = 0;
    return buf;
}
#endif
