(* C04/C05 model driver: one scenario per line, commands separated by ';'.
     B <hex>      text of the bind request (first command)
     S <hex>      user send                 T all,k5,again,err   tx script
     X reset|close|end|i:<item>,<item>...   one rx chunk
     R            run (one xmpp_run_once)   C   connect client + fixed negotiation prefix   D   dumpq
     P <sent|-> <handled|->   smpoke (harness sets the counters)
     O <hex>,<hex>|-   what the connection handler sends on CONNECT (onconnect send:..)
   items: st ot br f1 f0 r a=<dec>|a=bad|a=missing en=<0|1>=<idhex|-> re=<previdhex|->=<h|-> fa=<n|i|f|o>=<h|-> so
   Output: the canonical trace tokens  W<k>:<hex>  SM:<hex|null>  E:connect  E:disconnect  Q[..] SMQ[..]  CRASH *)
let buf = Buffer.create 4096
let emit s = Buffer.add_string buf s; Buffer.add_char buf ' '
let u32 n = Printf.sprintf "%08x" (n land 0xffffffff)
let hexbytes l = String.concat "" (List.map (fun b -> Printf.sprintf "%02x" ((int_of_z b) land 255)) l)
let blob_hex b =
  let s = Buffer.create 256 in
  Buffer.add_string s "1a00000000";
  Buffer.add_string s ("1a" ^ u32 (int_of_z b.b_sent));
  Buffer.add_string s ("1a" ^ u32 (int_of_z b.b_handled));
  Buffer.add_string s ("7a" ^ u32 (List.length b.b_id) ^ hexbytes b.b_id);
  Buffer.add_string s ("9a" ^ u32 (List.length b.b_sq));
  List.iter (fun t -> Buffer.add_string s ("7a" ^ u32 (List.length t) ^ hexbytes t)) b.b_sq;
  Buffer.add_string s ("ba" ^ u32 (List.length b.b_smq));
  List.iter (fun (h, t) -> Buffer.add_string s ("1a" ^ u32 (int_of_z h) ^ "7a" ^ u32 (List.length t) ^ hexbytes t)) b.b_smq;
  Buffer.contents s
let opt_hex s = if s = "-" then None else Some (zs_of_hex s)
let opt_z s = if s = "-" then None else Some (z_of_int (int_of_string s))
let parse_item s =
  match String.split_on_char '=' s with
  | ["st"] -> IStanza | ["ot"] -> IOther | ["br"] -> IBindResult
  | ["f1"] -> IFeatures true | ["f0"] -> IFeatures false
  | ["r"] -> ISm SmR | ["so"] -> ISm SmOther
  | ["a"; "bad"] -> ISm (SmA ABad) | ["a"; "missing"] -> ISm (SmA AMissing)
  | ["a"; h] -> ISm (SmA (AVal (z_of_int (int_of_string h))))
  | ["en"; r; id] -> ISm (SmEnabled (r = "1", opt_hex id))
  | ["re"; pv; h] -> ISm (SmResumed (opt_hex pv, opt_z h))
  | ["fa"; c; h] -> ISm (SmFailed ((match c with "n" -> FNone | "i" -> FItemNotFound | "f" -> FNotImpl | _ -> FOtherCause), opt_z h))
  | _ -> failwith ("item " ^ s)
let parse_sitem s =
  if s = "all" then SAll else if s = "again" then SAgain else if s = "err" then SErr
  else if String.length s > 1 && s.[0] = 'k' then SK (z_of_int (int_of_string (String.sub s 1 (String.length s - 1))))
  else failwith ("sitem " ^ s)
let dumpq st =
  let b = Buffer.create 128 in
  let nuser = List.length (List.filter (fun e -> e.q_owner = OUser) st.sq) in
  Buffer.add_string b (Printf.sprintf "Q[len=%d,user=%d:" (List.length st.sq) nuser);
  List.iter (fun e -> Buffer.add_string b (Printf.sprintf "(%s,w=%d/%d)"
     (match e.q_owner with OUser -> "U" | OLib -> "L" | OSm -> "Ls") (int_of_z e.q_written) (List.length e.q_text))) st.sq;
  Buffer.add_string b "]";
  emit (Buffer.contents b);
  let b = Buffer.create 128 in
  Buffer.add_string b (Printf.sprintf "SMQ[sent=%d,handled=%d,en=%d:" (int_of_z st.sent_nr) (int_of_z st.handled_nr) (if st.sm_enabled then 1 else 0));
  List.iter (fun e -> Buffer.add_string b (Printf.sprintf "(h=%d,n=%d)" (int_of_z e.s_h) (List.length e.s_text))) st.smq;
  Buffer.add_string b "]";
  emit (Buffer.contents b)
let () = iter_lines (fun line ->
  Buffer.clear buf;
  if line = "" then "" else begin
    let bind_text = ref [] in
    let d = ref dinit in
    let wire = Buffer.create 256 in
    let flush () =
      if Buffer.length wire > 0 then begin
        emit (Printf.sprintf "W%d:%s" (int_of_z (!d).d_st.nconn - 1) (Buffer.contents wire)); Buffer.clear wire end in
    let outs l = List.iter (function
      | OBytes bs -> Buffer.add_string wire (hexbytes bs)
      | OCb None -> emit "SM:null"
      | OCb (Some b) -> emit ("SM:" ^ blob_hex b)
      | OConnect -> flush (); emit "E:connect"
      | ODisc -> flush (); emit "E:disconnect"
      | OG _ -> ()) l in
    let dead = ref false in
    List.iter (fun c ->
      if not !dead then begin
      let c = String.trim c in
      if c <> "" then begin
        let op = c.[0] in
        let arg = if String.length c > 2 then String.sub c 2 (String.length c - 2) else "" in
        (match op with
         | 'B' -> bind_text := zs_of_hex arg
         | 'S' -> let (d', o) = exec !bind_text !d (CSend (zs_of_hex arg)) in d := d'; outs o
         | 'T' -> let (d', o) = exec !bind_text !d (CTx (List.map parse_sitem (String.split_on_char ',' arg))) in d := d'; outs o
         | 'X' ->
             let ch = if arg = "reset" then RxReset else if arg = "close" then RxClose else if arg = "end" then RxEnd
                      else RxItems (List.map parse_item (String.split_on_char ',' (String.sub arg 2 (String.length arg - 2)))) in
             let (d', o) = exec !bind_text !d (CRx ch) in d := d'; outs o
         | 'R' -> let (d', o) = exec !bind_text !d CRun in d := d'; outs o; flush ()
         | 'C' -> let (d', o) = exec !bind_text !d CConnect in d := d'; outs o
         | 'O' -> let l = if arg = "-" || arg = "" then [] else List.map zs_of_hex (String.split_on_char ',' arg) in
                  let (d', o) = exec !bind_text !d (COnConnect l) in d := d'; outs o
         | 'P' -> (match String.split_on_char ' ' arg with
                   | [a; b] -> let (d', o) = exec !bind_text !d (CPoke (opt_z a, opt_z b)) in d := d'; outs o
                   | _ -> failwith ("poke " ^ c))
         | 'D' -> dumpq (!d).d_st
         | 'L' -> emit "|"
         | _ -> failwith ("cmd " ^ c));

      end end) (String.split_on_char ';' line);
    String.trim (Buffer.contents buf)
  end)
