(* C06 model driver.  One history per line:  <sm 0|1>[u];op;op;...   (suffix u: the model of the code as found,
   without fixes/C06-1.patch)
   ops:  U <hex> (user send)  L <hex> (library send, owner STROPHE)  S <hex> (library send, owner SM_STROPHE)
         T t1,t2,.. (write schedule: all k<n> again err)  I (one loop iteration)  DO / DY (drop oldest / youngest)
         QL (queue length)  A <h> (<a h=../> received)  DQ (dump queues)
   output: the predicted trace tokens (W:<hex> E:disconnect | D= L= Q[..] SMQ[..]) *)
let sched_of s =
  List.map (fun t ->
    if t = "all" then WAll else if t = "again" then WAgain else if t = "err" then WErr
    else if String.length t > 1 && t.[0] = 'k' then WK (nat_of_int (int_of_string (String.sub t 1 (String.length t - 1))))
    else failwith "sched") (String.split_on_char ',' s)
let own_s = function OwUser -> "U" | OwLib -> "L" | OwSmLib -> "Ls"
let b2i b = if b then 1 else 0
let dump st =
  match queue_of st, smq_of st with
  | Ok q, Ok s ->
    let qe = String.concat "" (List.map (fun (_, n) ->
      Printf.sprintf "(%s,w=%d/%d,wip=%d)" (own_s n.n_owner) (int_of_nat n.n_written) (List.length n.n_data) (b2i n.n_wip)) q) in
    let se = String.concat "" (List.map (fun (_, n) ->
      Printf.sprintf "(h=%d,n=%d)" (int_of_z n.n_smh) (List.length n.n_data)) s) in
    Printf.sprintf "Q[len=%d,user=%d:%s] SMQ[sent=%d,en=%d:%s]" (int_of_z st.s_len) (int_of_z st.s_ulen) qe
      (int_of_z st.s_sent_nr) (b2i st.s_sm_enabled) se
  | _ -> "DUMP-FAILED"
let () = iter_lines (fun line ->
  if line = "" then "" else
  let cmds = String.split_on_char ';' line in
  let h = List.hd cmds in
  let sm = (String.length h > 0 && h.[0] = '1') in
  let fx = not (String.length h > 1 && h.[1] = 'u') in
  let st = ref (init sm) in
  let out = Buffer.create 256 in
  let dead = ref false in
  let emit s = Buffer.add_string out s; Buffer.add_char out ' ' in
  let do_step o k =
    if not !dead then
      match step fx !st o with
      | Ok (st', r) -> st := st'; k r
      | UAF -> dead := true; emit "UAF"
      | Crash -> dead := true; emit "CRASH-MODEL"
      | Fuel -> dead := true; emit "FUEL" in
  List.iter (fun c ->
    if c <> "" && not !dead then
    match split_ws c with
    | ["U"; h] -> do_step (OSend (OwUser, zs_of_hex h)) (fun _ -> ())
    | ["L"; h] -> do_step (OSend (OwLib, zs_of_hex h)) (fun _ -> ())
    | ["S"; h] -> do_step (OSend (OwSmLib, zs_of_hex h)) (fun _ -> ())
    | ["T"; s] -> do_step (OSched (sched_of s)) (fun _ -> ())
    | ["I"] -> do_step OIter (function
        | OutIter (bs, d) -> (if bs <> [] then emit ("W:" ^ hex_of_zs bs)); (if d then emit "E:disconnect"); emit "|"
        | _ -> emit "?")
    | ["DO"] -> do_step (ODrop Oldest) (function OutDrop None -> emit "D=null" | OutDrop (Some t) -> emit ("D=" ^ hex_of_zs t) | _ -> emit "?")
    | ["DY"] -> do_step (ODrop Youngest) (function OutDrop None -> emit "D=null" | OutDrop (Some t) -> emit ("D=" ^ hex_of_zs t) | _ -> emit "?")
    | ["QL"] -> do_step OQlen (function OutLen n -> emit (Printf.sprintf "L=%d" (int_of_z n)) | _ -> emit "?")
    | ["A"; h] -> do_step (OAck (z_of_int (int_of_string h))) (fun _ -> ())
    | ["DQ"] -> emit (dump !st)
    | _ -> emit ("BADOP:" ^ c)) (List.tl cmds);
  String.trim (Buffer.contents out))
