(* C07 model driver: same line protocol as harness/c/c07_driver.c for P S K D N, plus the
   negotiation-level queries answered by the model only (compared with what simworld put on the wire):
     I <plus 0|1> <secured 0|1> <cbtype|~> <cbdata|~> <jid> <rng>  -> I <message> <first_bare offset> <cb base64> <auth payload> | I null
     X <jid> <xmppAddr,xmppAddr..|->                               -> X <payload>
     L <jid> <password>                                            -> L <name>=<text>,.. | L null
     H <stream id|~> <secret>                                      -> H <handshake text> | H null
     A <n> then per attempt the I fields (without rng), last field the rng stream -> A <nonce>,<nonce>..  (run_attempts) *)
let opt s = if s = "~" then None else Some (zs_of_hex s)
let fin tag f = function
  | AOk v -> tag ^ " " ^ f v | ANull -> tag ^ " null" | AOOB -> tag ^ " OOB" | AFuel -> tag ^ " FUEL"
  | AAbort -> tag ^ " ABORT" | ACrash -> tag ^ " CRASH"
let strip_p a = if String.length a > 0 && a.[String.length a - 1] = 'p' then String.sub a 0 (String.length a - 1) else a
let () = iter_lines (fun line ->
  if line = "" then "" else
  match split_ws line with
  | ["P"; a; p] -> fin "P" hex_of_zs (sasl_plain (zs_of_hex a) (zs_of_hex p))
  | ["S"; alg; cb; ch; fb; pw] ->
      let f = (match strip_p alg with "1" -> sasl_scram_sha1 | "256" -> sasl_scram_sha256 | "512" -> sasl_scram_sha512 | _ -> failwith "alg") in
      fin "S" hex_of_zs (f (zs_of_hex cb) (zs_of_hex ch) (zs_of_hex fb) (zs_of_hex pw))
  | ["K"; alg; pw; salt; i] ->
      let f = (match alg with "1" -> client_key_sha1 | "256" -> client_key_sha256 | "512" -> client_key_sha512 | _ -> failwith "alg") in
      fin "K" hex_of_zs (f (zs_of_hex pw) (zs_of_hex salt) (z_of_int (int_of_string i)))
  | ["D"; ch; jid; pw; rnd] -> fin "D" hex_of_zs (sasl_digest_md5 (zs_of_hex ch) (zs_of_hex jid) (zs_of_hex pw) (zs_of_hex rnd))
  | ["N"; len; rnd] -> "N " ^ hex_of_zs (rand_nonce (zs_of_hex rnd) (z_of_int (int_of_string len)))
  | ["I"; plus; sec; cbt; cbd; jid; rng] ->
      let (r, _) = make_scram_init_msg (plus = "1") (sec = "1") (opt cbt) (opt cbd) (zs_of_hex jid) (zs_of_hex rng) in
      fin "I" (fun si -> Printf.sprintf "%s %d %s %s" (hex_of_zs si.si_message) (int_of_z si.si_first_bare)
                           (hex_of_zs si.si_channel_binding) (hex_of_zs (scram_auth_payload si))) r
  | ["X"; jid; addrs] ->
      let l = if addrs = "-" then [] else List.map zs_of_hex (String.split_on_char ',' addrs) in
      "X " ^ hex_of_zs (external_payload l (zs_of_hex jid))
  | ["L"; jid; pw] ->
      fin "L" (fun l -> String.concat "," (List.map (fun (n, v) -> hex_of_zs n ^ "=" ^ hex_of_zs v) l))
        (legacy_payload (zs_of_hex jid) (zs_of_hex pw))
  | ["H"; sid; secret] -> fin "H" hex_of_zs (component_handshake (opt sid) (zs_of_hex secret))
  | "A" :: rest ->
      let rec go = function
        | [rng] -> ([], zs_of_hex rng)
        | plus :: sec :: cbt :: cbd :: jid :: tl ->
            let (l, rng) = go tl in
            ({ at_plus = (plus = "1"); at_secured = (sec = "1"); at_cbtype = opt cbt; at_cbdata = opt cbd; at_jid = zs_of_hex jid } :: l, rng)
        | _ -> failwith "A" in
      let (atts, rng) = go rest in
      "A " ^ String.concat "," (List.map (function AOk si -> hex_of_zs si.si_message | ANull -> "null" | _ -> "ERR") (run_attempts atts rng))
  | _ -> "?")
