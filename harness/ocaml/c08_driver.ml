(* C08 model driver.
   input : "<mode> <entry> <ca> <hs_ok> <tls_err> <stream> <after>"
           mode T|N|A|R|S<digits>|P<role>|Q<role>, entry starttls|legacy[+m], ca ca|noca|badca|cadir, hs_ok 0|1,
           stream = comma separated <preverify_ok><role of the certificate the verdict is about> per invocation, as
           observed (role 0 leaf, 1 intermediate, 2 root), or -, after close|silent, optionally the handler history
   output: the fields of the C driver's line that the model predicts, plus pol=<policy_ok of the spec on this run> *)
let tok = function WHeader -> "H" | WStartTls -> "S" | WAuth -> "A" | WBind -> "B" | WClose -> "X"
let b2s b = if b then "1" else "0"
let err = function ErrNone -> "0" | ErrTls e -> string_of_int (int_of_z e) | ErrAborted -> "ABRT" | ErrPeer -> "*"
let dash s = if s = "" then "-" else s
let () = iter_lines (fun line ->
  if line = "" || line.[0] = '#' then "" else
  match split_ws line with
  | mode :: entry :: ca :: hs :: te :: stream :: after :: rest ->
    (* optional 8th field: earlier handler settings on the same connection object (A accept-all, R reject-all, N none) *)
    let hist = match rest with h :: _ when h <> "-" -> h | _ -> "" in
    let before = List.init (String.length hist) (fun i -> match hist.[i] with
      | 'A' -> CbScript ([], z_of_int 1) | 'R' -> CbScript ([], z_of_int 0) | _ -> CbNone) in
    let cb = match mode.[0] with
      | 'A' -> CbScript ([], z_of_int 1)
      | 'R' -> CbScript ([], z_of_int 0)
      | 'S' -> CbScript (List.init (String.length mode - 1) (fun i -> z_of_int (Char.code mode.[i+1] - 48)), z_of_int 0)
      | 'P' -> CbByCert ([(z_of_int (Char.code mode.[1] - 48), z_of_int 1)], z_of_int 0)
      | 'Q' -> CbByCert ([(z_of_int (Char.code mode.[1] - 48), z_of_int 0)], z_of_int 1)
      | _ -> CbNone in
    let sc = { s_trust = (mode.[0] = 'T'); s_cafile = (ca = "ca" || ca = "badca"); s_capath = (ca = "cadir"); s_cb_before = before; s_cb = cb;
               s_entry = (if String.length entry >= 6 && String.sub entry 0 6 = "legacy" then ELegacy else EStartTls);
               s_mandatory = (String.length entry > 2 && String.sub entry (String.length entry - 2) 2 = "+m");
               s_ssl_ok = true; s_ca_ok = (ca <> "badca");
               s_stream = (if stream = "-" then [] else
                 List.map (fun t -> (z_of_int (Char.code t.[0] - 48), z_of_int (Char.code t.[1] - 48))) (String.split_on_char ',' stream));
               s_hs_ok = (hs = "1"); s_tls_err = z_of_int (int_of_string te);
               s_after = (if after = "silent" then PeerSilent else PeerCloses) } in
    let (c, tr) = run sc in
    let cfg = List.fold_left (fun acc o -> match o with OTlsNew (false, Some g) when acc = "none" ->
                Printf.sprintf "%d/%d/%d/%s" (int_of_z g.v_mode) (if int_of_z g.v_cb = 0 then 0 else 1) (int_of_z g.v_hostflags) (b2s g.v_host)
              | _ -> acc) "none" tr in
    let v = String.concat "," (List.filter_map (function OVerify (p, r) -> Some (Printf.sprintf "%d%d" (int_of_z p) (int_of_z r)) | _ -> None) tr) in
    (* calls that go to a handler of the history rather than to the one set last (only when the model, following the
       source, does not let the last setting win) *)
    let stale = effective_cb sc <> cb in
    let ncalls = List.length (List.filter (function OCertfail _ -> true | _ -> false) tr) in
    let cbn = if stale then 0 else ncalls in
    let shown = String.concat "" (List.filter_map (function OCertfail (_, c, _) -> Some (string_of_int (int_of_z c)) | _ -> None) tr) in
    let ts = List.length (List.filter (function OTlsStart _ -> true | _ -> false) tr) in
    let ev = String.concat "," (List.filter_map (function OConnect s -> Some ("C" ^ b2s s) | ODisconnect (s, e) -> Some ("D" ^ b2s s ^ "/" ^ err e) | _ -> None) tr) in
    let polls = List.filter_map (function OIs s -> Some s | _ -> None) tr in
    let secmax = List.exists (fun s -> s) polls and secfin = is_secured c in
    let started = ref false and cw0 = Buffer.create 8 and cw1 = Buffer.create 8 and t = Buffer.create 8 in
    List.iter (function
      | OTlsNew (false, Some _) -> started := true
      | OWire (true, w) -> Buffer.add_string t (tok w)
      | OWire (false, w) -> Buffer.add_string (if !started then cw1 else cw0) (tok w)
      | _ -> ()) tr;
    let nd = List.length (List.filter (function ODisconnect _ -> true | _ -> false) tr) in
    let crash = List.exists (function OCrash -> true | _ -> false) tr in
    Printf.sprintf "cfg=%s v=%s cbn=%d stale=%d sh=%s ts=%d ev=%s sec=%s/%s cw=%s|%s t=%s nd=%d crash=%s pol=%s"
      cfg (dash v) cbn (if stale then ncalls else 0) (dash (if stale then "" else shown)) ts (dash ev) (b2s secmax) (b2s secfin) (dash (Buffer.contents cw0)) (dash (Buffer.contents cw1))
      (dash (Buffer.contents t)) nd (b2s crash) (b2s (policy_ok sc))
  | _ -> "bad-input")
