(* C09 model driver: same protocol as harness/c/c09_driver.c (see there).
   After " # " it prints, for every successful P of a tag, " S:<canonical dump of spec_parse(text) | NONE>". *)
let bstr_of_field s = zs_of_hex s
let opt_of_field s = if s = "~" then None else Some (zs_of_hex s)
let nat_of_field s = nat_of_int (int_of_string s)

let parse_op tok =
  match String.split_on_char ',' tok with
  | ["N"; d] -> Some (ONew (nat_of_field d))
  | ["n"; s; v] -> Some (OSetName (nat_of_field s, bstr_of_field v))
  | ["t"; s; v] -> Some (OSetText (nat_of_field s, bstr_of_field v))
  | ["T"; s; v; n] -> Some (OSetTextSize (nat_of_field s, bstr_of_field v, z_of_int (int_of_string n)))
  | ["a"; s; k; v] -> Some (OSetAttr (nat_of_field s, bstr_of_field k, bstr_of_field v))
  | ["s"; s; v] -> Some (OSetNs (nat_of_field s, bstr_of_field v))
  | ["i"; s; v] -> Some (OSetId (nat_of_field s, bstr_of_field v))
  | ["o"; s; v] -> Some (OSetTo (nat_of_field s, bstr_of_field v))
  | ["f"; s; v] -> Some (OSetFrom (nat_of_field s, bstr_of_field v))
  | ["y"; s; v] -> Some (OSetType (nat_of_field s, bstr_of_field v))
  | ["d"; s; k] -> Some (ODelAttr (nat_of_field s, bstr_of_field k))
  | ["c"; p; c] -> Some (OAddChild (nat_of_field p, nat_of_field c))
  | ["C"; d; s] -> Some (OCopy (nat_of_field d, nat_of_field s))
  | ["R"; d; s] -> Some (OReply (nat_of_field d, nat_of_field s))
  | ["E"; d; s; ty; cond; text] ->
      Some (OReplyError (nat_of_field d, nat_of_field s, bstr_of_field ty, bstr_of_field cond, opt_of_field text))
  | ["S"; d; k; text] -> Some (OErrorNew (nat_of_field d, z_of_int (int_of_string k), opt_of_field text))
  | ["P"; s] -> Some (OToText (nat_of_field s))
  | ["D"; s] -> Some (ODump (nat_of_field s))
  | _ -> None

let rec dump_raw b t =
  match t with
  | Unk _ -> Buffer.add_char b 'U'
  | Text s -> Buffer.add_char b 'T'; Buffer.add_string b (hex_of_zs s)
  | Tag (name, a, children) ->
      Buffer.add_char b 'E'; Buffer.add_string b (hex_of_zs name);
      Buffer.add_char b '[';
      (match a with
       | None -> ()
       | Some h ->
           List.iteri (fun i (k, v) ->
               if i > 0 then Buffer.add_char b ',';
               Buffer.add_string b (hex_of_zs k); Buffer.add_char b '='; Buffer.add_string b (hex_of_zs v))
             (List.concat h.h_entries));
      Buffer.add_char b ']';
      Buffer.add_char b '(';
      List.iteri (fun i c -> if i > 0 then Buffer.add_char b ','; dump_raw b c) children;
      Buffer.add_char b ')'

let rec dump_canon b x =
  match x with
  | XText s -> Buffer.add_char b 'T'; Buffer.add_string b (hex_of_zs s)
  | XElem (ns, name, al, children) ->
      Buffer.add_char b 'E'; Buffer.add_string b (hex_of_zs name);
      Buffer.add_char b '{'; Buffer.add_string b (hex_of_zs ns); Buffer.add_char b '}';
      Buffer.add_char b '[';
      let al = List.map (fun (k, v) -> (List.map int_of_z k, v)) al in
      let al = List.sort (fun (k1, _) (k2, _) -> compare k1 k2) al in
      List.iteri (fun i (k, v) ->
          if i > 0 then Buffer.add_char b ',';
          Buffer.add_string b (hex_of_ints k); Buffer.add_char b '='; Buffer.add_string b (hex_of_zs v)) al;
      Buffer.add_char b ']';
      Buffer.add_char b '(';
      List.iteri (fun i c -> if i > 0 then Buffer.add_char b ','; dump_canon b c) children;
      Buffer.add_char b ')'

let () = iter_lines (fun line ->
  let toks = split_ws line in
  let ops = List.map parse_op toks in
  let good = List.filter_map (fun x -> x) ops in
  let outs = ref (run good) in
  let b = Buffer.create 1024 and aux = Buffer.create 1024 in
  let is_tag_render = ref [] in
  (* which P ops render a tag: known from the dump of the text itself (starts with '<') *)
  List.iteri (fun i o ->
      if i > 0 then Buffer.add_char b ' ';
      match o with
      | None -> Buffer.add_char b '?'
      | Some _ ->
          (match !outs with
           | [] -> Buffer.add_string b "!"
           | x :: r ->
               outs := r;
               (match x with
                | ORc rc -> Buffer.add_string b (Printf.sprintf "r%d" (int_of_z rc))
                | OSkip -> Buffer.add_char b 'k'
                | OHandle null -> Buffer.add_string b (if null then "h1" else "h0")
                | OTree None -> Buffer.add_string b "D:FUEL"
                | OTree (Some t) -> Buffer.add_string b "D:"; dump_raw b t
                | OText (TOk (buf, len)) ->
                    (match cstring buf with
                     | None -> Buffer.add_string b (Printf.sprintf "P:0:%d:UNTERMINATED" (int_of_z len))
                     | Some s ->
                         Buffer.add_string b (Printf.sprintf "P:0:%d:%d:%s" (int_of_z len) (List.length s) (hex_of_zs s));
                         (match s with
                          | c :: _ when int_of_z c = 60 ->
                              Buffer.add_string aux " S:";
                              (match spec_parse ns_client s with
                               | None -> Buffer.add_string aux "NONE"
                               | Some x -> dump_canon aux x)
                          | _ -> ()))
                | OText (TErr e) -> Buffer.add_string b (Printf.sprintf "P:%d:0:0:-" (int_of_z e))
                | OText TOOB -> Buffer.add_string b "P:OOB"
                | OText TCrash -> Buffer.add_string b "P:CRASH"
                | OText TUninit -> Buffer.add_string b "P:UNINIT")))
    ops;
  ignore is_tag_render;
  Buffer.contents b ^ " #" ^ Buffer.contents aux)
