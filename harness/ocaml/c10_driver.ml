(* C10 model driver.  Input: one line of raw SAX tokens as printed by c10_driver.c in mode S/D/X
     s(qname;k=v,...)  e(qname)  c(bytes)  R  E<k>  /
   Output: what the libstrophe layer hands to its owner for these events, in the format of mode L
     O(name;k=v,...)  Z(tree)  C(name)   with R, E<k> and / copied through in place.
   The extracted `step` is folded over the events from `init_state`; a failure outcome of the
   model ends the line with MODEL-CRASH / MODEL-UNINIT / MODEL-OOB. *)
let hex_of_str l = hex_of_zs l
let str_of_hex s = zs_of_hex s
let cmp_str a b = compare (List.map int_of_z a) (List.map int_of_z b)
let attrs_hex sorted l =
  let l = if sorted then List.sort (fun (k1, _) (k2, _) -> cmp_str k1 k2) l else l in
  String.concat "," (List.map (fun (k, v) -> hex_of_str k ^ "=" ^ hex_of_str v) l)
let rec tree_hex = function
  | Text s -> "t(" ^ hex_of_str s ^ ")"
  | Elem (n, a, kids) -> "e(" ^ hex_of_str n ^ "|" ^ attrs_hex true a ^ "|" ^ String.concat "" (List.map tree_hex kids) ^ ")"
let out_hex = function
  | StreamStart (n, a) -> "O(" ^ hex_of_str n ^ ";" ^ attrs_hex true a ^ ")"
  | Stanza t -> "Z(" ^ tree_hex t ^ ")"
  | StreamEnd q -> "C(" ^ hex_of_str q ^ ")"
let parse_attrs s =
  if s = "" then [] else
  List.map (fun kv -> match String.index_opt kv '=' with
      | Some i -> (str_of_hex (String.sub kv 0 i), str_of_hex (String.sub kv (i + 1) (String.length kv - i - 1)))
      | None -> failwith "attr") (String.split_on_char ',' s)
let inner t = String.sub t 2 (String.length t - 3)
let () = iter_lines (fun line ->
  if line = "" || line = "-" then "-" else
  let toks = split_ws line in
  let buf = Buffer.create 256 in
  let add s = if Buffer.length buf > 0 then Buffer.add_char buf ' '; Buffer.add_string buf s in
  let st = ref init_state in
  let dead = ref false in
  List.iter (fun t ->
    if not !dead then begin
      let ev =
        if t = "R" then Some SReset
        else if t = "/" || t.[0] = 'E' then None
        else match t.[0] with
          | 's' -> let b = inner t in
                   let i = String.index b ';' in
                   Some (SStart (str_of_hex (String.sub b 0 i), parse_attrs (String.sub b (i + 1) (String.length b - i - 1))))
          | 'e' -> Some (SEnd (str_of_hex (inner t)))
          | 'c' -> Some (SChars (str_of_hex (inner t)))
          | _ -> failwith ("token " ^ t) in
      match ev with
      | None -> add t
      | Some e ->
        (match step !st e with
         | Ok (st', outs) -> st := st'; List.iter (fun o -> add (out_hex o)) outs; if t = "R" then add "R"
         | Crash -> dead := true; add "MODEL-CRASH"
         | Uninit -> dead := true; add "MODEL-UNINIT"
         | OOB -> dead := true; add "MODEL-OOB")
    end) toks;
  if Buffer.length buf = 0 then "-" else Buffer.contents buf)
