(* C11 model driver: same scenario language as harness/c/c11_driver.c (see there), interpreted with the
   extracted HandlerModel.  hx.ml is prepended, Model is opened. *)
let zs_of_string s = List.init (String.length s) (fun i -> z_of_int (Char.code s.[i]))
let string_of_zs l = String.concat "" (List.map (fun c -> String.make 1 (Char.chr (int_of_z c land 255))) l)
let ostr s = if s = "-" then None else Some (zs_of_string s)
let show_ostr = function None -> "-" | Some l -> string_of_zs l
let fuel = nat_of_int 600
(* xmpp_run_once returns before select() when no connection has a socket (state DISCONNECTED), so the
   "something happened" variant run2 only makes a second timed pass in states CONNECTED / CONNECTING *)
let has_socket = ref true

type def = DS of string * string * string * int * int * bool | DI of string * int * int * bool
         | DT of int * int * int * bool | DG of int * int * int

let defs : (int, def) Hashtbl.t = Hashtbl.create 16
let behs : (int * int, (bool * string list) array) Hashtbl.t = Hashtbl.create 16

let split_on c s = if s = "" then [] else String.split_on_char c s

let action_of_def k =
  match Hashtbl.find_opt defs k with
  | None -> None
  | Some (DS (ns, name, ty, cb, ud, u)) -> Some (AAddStanza (z_of_int cb, z_of_int ud, u, ostr ns, ostr name, ostr ty))
  | Some (DI (id, cb, ud, u)) -> Some (AAddId (z_of_int cb, z_of_int ud, u, zs_of_string id))
  | Some (DT (p, cb, ud, u)) -> Some (AAddTimed (z_of_int cb, z_of_int ud, u, z_of_int p))
  | Some (DG (p, cb, ud)) -> Some (AAddGlobal (z_of_int cb, z_of_int ud, z_of_int p))

let starts s p = String.length s >= String.length p && String.sub s 0 (String.length p) = p
let after s p = String.sub s (String.length p) (String.length s - String.length p)

let action_of_string a =
  if starts a "add:" then action_of_def (int_of_string (after a "add:"))
  else if starts a "dels:" then Some (ADel (KStanza, z_of_int (int_of_string (after a "dels:"))))
  else if starts a "deli:" then begin
    let r = after a "deli:" in
    match String.index_opt r ':' with
    | None -> None
    | Some i -> Some (ADel (KId (zs_of_string (String.sub r (i + 1) (String.length r - i - 1))),
                            z_of_int (int_of_string (String.sub r 0 i))))
  end
  else if starts a "delt:" then Some (ADel (KTimed, z_of_int (int_of_string (after a "delt:"))))
  else if starts a "delg:" then Some (ADel (KGlobal, z_of_int (int_of_string (after a "delg:"))))
  else if starts a "send:" then Some (ASend (zs_of_string (after a "send:")))
  else if starts a "clk:" then Some (AClk (z_of_int (int_of_string (after a "clk:"))))
  else None

let script : script = fun lg cb ud ->
  let n = List.fold_left (fun acc e -> match e with
      | EvCall (_, c, u, _, _, _, _) when c = cb && u = ud -> acc + 1 | _ -> acc) 0 lg in
  match Hashtbl.find_opt behs (int_of_z cb, int_of_z ud) with
  | None -> ([], true)
  | Some arr when Array.length arr = 0 -> ([], true)
  | Some arr ->
    let (ret, acts) = arr.(min n (Array.length arr - 1)) in
    (List.filter_map action_of_string acts, ret)

let buf = Buffer.create 1024
let tr s = Buffer.add_string buf s

let show_event cur_stanza = function
  | EvCall (_, cb, ud, _, k, t, _) ->
    let what = match k with
      | KTimed -> "t" | KGlobal -> "g"
      | _ -> (match cur_stanza with
          | None -> "?"
          | Some sz -> (match sz.st_name with None -> "?" | Some n -> string_of_zs n) ^
                       (match sz.st_id with None -> "" | Some i -> "#" ^ string_of_zs i)) in
    Printf.sprintf "H%d.%d@%d:%s " (int_of_z cb) (int_of_z ud) (int_of_z t) what
  | EvWrite d -> Printf.sprintf "W:%s " (string_of_zs d)

let rec take n l = if n <= 0 then [] else match l with [] -> [] | x :: r -> x :: take (n - 1) r

(* walk a list on the model heap for the dump *)
let walk st head =
  let rec go p n acc = if n = 0 then List.rev acc else match p with
      | None -> List.rev acc
      | Some x -> (match st.heap x with None -> List.rev ("FREED" :: acc)
                                     | Some it ->
                                       let base = Printf.sprintf "%d.%d.%c.%c" (int_of_z it.i_cb) (int_of_z it.i_ud)
                                           (if it.i_enabled then 'e' else 'd') (if it.i_user then 'u' else 'y') in
                                       let s = match it.i_flt with
                                         | FStanza (ns, name, ty) -> Printf.sprintf "%s.%s.%s.%s" base (show_ostr ns) (show_ostr name) (show_ostr ty)
                                         | FId id -> Printf.sprintf "%s.%s" base (string_of_zs id)
                                         | FTimed (p, l) -> Printf.sprintf "%s.%d.%d" base (int_of_z p) (int_of_z l) in
                                       go it.i_next (n - 1) (s :: acc)) in
  String.concat " " (go head 1000 [])

let dump st =
  tr ("D S[" ^ walk st st.h_stanza ^ "] I{");
  let keys = List.sort_uniq compare (List.filter_map (fun (k, v) -> match v with None -> None | Some _ -> Some (string_of_zs k)) st.h_ids) in
  let keys = List.filter (fun k -> id_get (zs_of_string k) st.h_ids <> None) keys in
  tr (String.concat ";" (List.map (fun k -> k ^ ":[" ^ walk st (id_get (zs_of_string k) st.h_ids) ^ "]") keys));
  tr ("} T[" ^ walk st st.h_timed ^ "] G[" ^ walk st st.h_global ^ "] ")

exception Stop of string

let stanza_of args =
  match args with
  | [name; ns; ty; id; ch] ->
    { st_name = Some (zs_of_string name); st_ns = ostr ns; st_type = ostr ty; st_id = ostr id;
      st_children = (if ch = "-" then [] else List.map (fun c -> if c = "~" || c = "T" then None else Some (zs_of_string c)) (split_on ',' ch)) }
  | _ -> failwith "stanza"

let run_model st o cur_stanza suffix =
  let before = List.length !st.log in
  let finish st' =
    let nw = take (List.length st'.log - before) st'.log in
    List.iter (fun e -> tr (show_event cur_stanza e)) (List.rev nw) in
  match run_op script fuel o !st with
  | Ok st' -> finish st'; st := st'; tr suffix
  | UAF -> raise (Stop "UAF")
  | DoubleFree -> raise (Stop "DoubleFree")
  | Fuel -> raise (Stop "Fuel")

let command st cmd =
  match split_ws cmd with
  | [] -> ()
  | "beh" :: cb :: ud :: spec :: _ ->
    let entries = List.map (fun e ->
        let ret = String.length e > 0 && e.[0] = '1' in
        let acts = if String.length e > 2 && e.[1] = ':' then split_on ',' (String.sub e 2 (String.length e - 2)) else [] in
        (ret, acts)) (split_on '/' spec) in
    Hashtbl.replace behs (int_of_string cb, int_of_string ud) (Array.of_list (take 8 entries))
  | ["def"; k; "s"; ns; name; ty; cb; ud; u] -> Hashtbl.replace defs (int_of_string k) (DS (ns, name, ty, int_of_string cb, int_of_string ud, u.[0] = 'u'))
  | ["def"; k; "i"; id; cb; ud; u] -> Hashtbl.replace defs (int_of_string k) (DI (id, int_of_string cb, int_of_string ud, u.[0] = 'u'))
  | ["def"; k; "t"; p; cb; ud; u] -> Hashtbl.replace defs (int_of_string k) (DT (int_of_string p, int_of_string cb, int_of_string ud, u.[0] = 'u'))
  | "def" :: k :: "g" :: p :: cb :: ud :: _ -> Hashtbl.replace defs (int_of_string k) (DG (int_of_string p, int_of_string cb, int_of_string ud))
  | ["add"; k] -> (match action_of_def (int_of_string k) with None -> () | Some a -> run_model st (OAct a) None "")
  | ["dels"; cb] -> run_model st (OAct (ADel (KStanza, z_of_int (int_of_string cb)))) None ""
  | ["deli"; cb; id] -> run_model st (OAct (ADel (KId (zs_of_string id), z_of_int (int_of_string cb)))) None ""
  | ["delt"; cb] -> run_model st (OAct (ADel (KTimed, z_of_int (int_of_string cb)))) None ""
  | ["delg"; cb] -> run_model st (OAct (ADel (KGlobal, z_of_int (int_of_string cb)))) None ""
  | ["neg"; b] -> run_model st (OSetNeg (b <> "0")) None ""
  | ["state"; s] -> has_socket := (s.[0] <> 'd'); run_model st (OSetConn (s.[0] = 'c')) None ""
  | ["clock"; d] -> run_model st (OClock (z_of_int (int_of_string d))) None ""
  | ["reset"; u] -> run_model st (OReset (u <> "0")) None ""
  | ["sysdel"] -> run_model st OSysDel None ""
  | ["dump"] -> dump !st
  | ["fire"] -> run_model st OFireTimed None ""
  | ["run"] -> run_model st (ORunOnce false) None "| "
  | ["run2"] -> run_model st (ORunOnce !has_socket) None "| "
  | ["open"] -> run_model st OOpen None "E:connect "
  | ("st" | "fst") :: args -> let sz = stanza_of args in run_model st (OStanza sz) (Some sz) "| "
  | c :: _ -> tr ("?" ^ c ^ " ")

let () = iter_lines (fun line ->
    if line = "" then "" else begin
      Buffer.clear buf; Hashtbl.reset defs; Hashtbl.reset behs; has_socket := true;
      let st = ref init_state in
      (try
         List.iter (command st) (String.split_on_char ';' line);
         dump !st
       with Stop s -> tr s);
      String.trim (Buffer.contents buf)
    end)
