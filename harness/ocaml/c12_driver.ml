(* C12 model driver (stanza stream): same protocol as harness/c/c12_driver.c around
   StanzaHeapModel.run / run_from / release_all_ops / well_owned.
   argv[1]: absent or "fixed" -> fx = true (libstrophe with fixes/C12-1), "unfixed" -> fx = false.
   The line is prefixed with "WO1 " / "WO0 " (well_owned fx prog).  "allocfail n" ops are ignored.
   A crashing step prints UAF / DFREE / FUEL and the line ends with " STOP"; a crash while the remaining
   handles are released at the end prints "ENDCRASH:<kind> STOP". *)
let fx = if Array.length Sys.argv > 1 && Sys.argv.(1) = "unfixed" then false else true

let nat_of_field s = nat_of_int (int_of_string s)
let opt_of_field s = if s = "-" then None else Some (zs_of_hex s)

let parse_op (s : string) : sop option option =
  (* None = ignored (allocfail / empty), Some None = unparsable, Some (Some op) *)
  match split_ws s with
  | [] -> None
  | "allocfail" :: _ -> None
  | toks ->
    Some (try
      (match toks with
       | ["new"; k] -> Some (ONew (nat_of_field k))
       | ["clone"; k; j] -> Some (OClone (nat_of_field k, nat_of_field j))
       | ["copy"; k; j] -> Some (OCopy (nat_of_field k, nat_of_field j))
       | ["release"; k] -> Some (ORelease (nat_of_field k))
       | ["addchild"; p; c; "clone"] -> Some (OAddChild (nat_of_field p, nat_of_field c, true))
       | ["addchild"; p; c; "transfer"] -> Some (OAddChild (nat_of_field p, nat_of_field c, false))
       | ["setname"; k; v] -> Some (OSetName (nat_of_field k, zs_of_hex v))
       | ["settext"; k; v] -> Some (OSetText (nat_of_field k, zs_of_hex v))
       | ["setattr"; k; key; v] -> Some (OSetAttr (nat_of_field k, zs_of_hex key, zs_of_hex v))
       | ["setns"; k; v] -> Some (OSetAttr (nat_of_field k, xmlns_key, zs_of_hex v))
       | ["delattr"; k; key] -> Some (ODelAttr (nat_of_field k, zs_of_hex key))
       | ["totext"; k] -> Some (OToText (nat_of_field k))
       | ["walk"; k] -> Some (OWalk (nat_of_field k))
       | ["child"; k; i; j] -> Some (OChild (nat_of_field k, nat_of_field i, nat_of_field j))
       | ["reply"; k; j] -> Some (OReply (nat_of_field k, nat_of_field j))
       | ["replyerr"; k; j; ty; cond; text] ->
           Some (OReplyErr (nat_of_field k, nat_of_field j, zs_of_hex ty, zs_of_hex cond, opt_of_field text))
       | _ -> None)
    with _ -> None)

let show_out = function
  | SRet rc -> Printf.sprintf "R%d" (int_of_z rc)
  | SHandle true -> "H1"
  | SHandle false -> "H0"
  | SText (RT s) -> "T:" ^ hex_of_zs s
  | SText (RE e) -> Printf.sprintf "TE%d" (int_of_z e)
  | SWalk (u, d) -> Printf.sprintf "W%d,%d" (int_of_z u) (int_of_z d)
  | SBad -> "BAD"
  | SUAF -> "UAF"
  | SDoubleFree -> "DFREE"
  | SFuel -> "FUEL"

(* ---- abstract connection programs ("CONN new;connect 0;disc 0;getsm 0;...") ---- *)
let parse_cop (s : string) : cop option =
  try (match split_ws s with
   | ["new"] -> Some CNew
   | ["clone"; c] -> Some (CClone (nat_of_field c))
   | ["release"; c] -> Some (CRelease (nat_of_field c))
   | ["connect"; c] -> Some (CConnect (nat_of_field c))
   | ["disc"; c] -> Some (CDisconnect (nat_of_field c))
   | ["send"; c] -> Some (CSend (nat_of_field c))
   | ["getsm"; c] -> Some (CGetSm (nat_of_field c))
   | ["setsm"; c; sm] -> Some (CSetSm (nat_of_field c, nat_of_field sm))
   | ["freesm"; sm] -> Some (CFreeSm (nat_of_field sm))
   | _ -> None) with _ -> None

let show_cout op out = match op, out with
  | CRelease _, CReleased true -> ["REL=1"]
  | CRelease _, CReleased false -> ["REL=0"]
  | CGetSm _, COk -> ["GETSM=1"]
  | CGetSm _, CRefused -> ["GETSM=0"]
  | CSetSm _, COk -> ["SETSM=ok"]
  | CSetSm _, CRefused -> ["SETSM=refused"]
  | _, CBad -> ["BAD"]
  | _, CUAF -> ["UAF"]
  | _, CDoubleFree -> ["DFREE"]
  | _, _ -> []

let conn_line (body : string) : string =
  let ops = List.map parse_cop (List.filter (fun x -> String.trim x <> "") (String.split_on_char ';' body)) in
  if List.exists (fun x -> x = None) ops then "UNPARSABLE" else
  let ops = List.filter_map (fun x -> x) ops in
  let (outs, fin) = crun_from fx cinit ops in
  let rec zip a b = match a, b with x :: r, y :: t -> (x, y) :: zip r t | _, _ -> [] in
  let toks = List.concat_map (fun (o, out) -> show_cout o out) (zip ops outs) in
  match fin with
  | None -> String.concat " " (toks @ ["STOP"])
  | Some w ->
      (* what simworld does at the end of a scenario: free a held SM state, drop every reference *)
      let cleanup = List.map (fun sm -> CFreeSm sm) w.w_user_sm @ List.map (fun c -> CRelease c) w.w_user_conn in
      let (outs2, fin2) = crun_from fx w cleanup in
      let errs = List.length (List.filter (fun o -> o = CUAF || o = CDoubleFree || o = CBad) outs2) in
      (match fin2 with
       | Some w2 -> String.concat " " (toks @ [Printf.sprintf "END live=%d allocerr=%d" (int_of_z (clive w2)) errs])
       | None -> String.concat " " (toks @ ["ENDCRASH STOP"]))

let () = iter_lines (fun line ->
  if String.length line >= 5 && String.sub line 0 5 = "CONN " then conn_line (String.sub line 5 (String.length line - 5)) else
  let parsed = List.filter_map parse_op (String.split_on_char ';' line) in
  if List.exists (fun x -> x = None) parsed then "WO0 UNPARSABLE" else
  let prog = List.filter_map (fun x -> x) parsed in
  let wo = well_owned fx prog in
  let (outs, fin) = run fx prog in
  let toks = List.map (fun (o, l) -> Printf.sprintf "%s@%d" (show_out o) (int_of_z l)) outs in
  let tail =
    match fin with
    | None -> ["STOP"]
    | Some st ->
        let (outs2, fin2) = run_from fx st (release_all_ops st) in
        (match fin2 with
         | Some st2 -> [Printf.sprintf "END live=%d" (int_of_z (live_count st2.st_heap))]
         | None ->
             let k = match List.rev outs2 with (o, _) :: _ -> show_out o | [] -> "?" in
             ["ENDCRASH:" ^ k; "STOP"]) in
  String.concat " " ((if wo then "WO1" else "WO0") :: toks @ tail))
