(* C14 model driver: reads the same scenario lines as harness/c/simworld.c
     conn;jid <hex>;[pass <hex>;][flags <dec>;]srv fail|<hex>;gai <host-hex> <n>|fail;...;ep b1,b2,..;
     connect client|raw|component [host-hex|-] [port];run [n];clock <ms>;...;is
   and prints the trace the model predicts, in the canonical vocabulary of checks/C14.py:
     Q:<name> G:<host>:<port>=<n> C<fd>:<ip>:<port>=<beh> X<fd> R=<rc> E0:disconnect(err=..,is=001)
     E0:raw_connect TLS:start=ok H<fd>:<W|T>:<to-hex>:<c|j> | FUEL ... S=<bits>,sec=<b>
   The SRV answer is decoded and sorted by ResolverModel.lookup (C15's model).
   argv[1] = "orig" runs sock_connect as found in the repository (before fixes/C14-1.patch). *)
let fx = not (Array.length Sys.argv > 1 && Sys.argv.(1) = "orig")
let str_of_zs l = String.concat "" (List.map (fun z -> String.make 1 (Char.chr ((int_of_z z) land 255))) l)
let zs_of_str s = List.init (String.length s) (fun i -> z_of_int (Char.code s.[i]))
let str_of_hex h = String.concat "" (List.map (fun b -> String.make 1 (Char.chr b)) (ints_of_hex h))
let host_hash s = let h = ref 0 in String.iter (fun c -> h := (!h * 31 + Char.code c) land 0xffffffff) s; !h land 255
let beh_of_string = function "refuse" -> Refuse | "late" -> Late | "hang" -> Hang | _ -> Accept
let string_of_beh = function Refuse -> "refuse" | Accept -> "accept" | Late -> "late" | Hang -> "hang"
let jid_domain j =
  let j = match String.index_opt j '/' with Some i -> String.sub j 0 i | None -> j in
  match String.index_opt j '@' with Some i -> String.sub j (i + 1) (String.length j - i - 1) | None -> j

let show_ev = function
  | EvQ d -> Some (Printf.sprintf "Q:_%s._%s.%s" (str_of_zs srv_service) (str_of_zs srv_proto) (str_of_zs d))
  | EvG (h, p, n) -> Some (Printf.sprintf "G:%s:%d=%d" (str_of_zs h) (int_of_z p) (int_of_nat n))
  | EvC (fd, c, b) ->
      Some (Printf.sprintf "C%d:10.0.%d.%d:%d=%s" (int_of_nat fd) (host_hash (str_of_zs c.c_host))
              (int_of_nat c.c_idx + 1) (int_of_z c.c_port) (string_of_beh b))
  | EvX fd -> Some (Printf.sprintf "X%d" (int_of_nat fd))
  | EvR rc -> Some (Printf.sprintf "R=%d" (int_of_z rc))
  | EvDisc ErrTimedOut -> Some "E0:disconnect(err=ETIMEDOUT,is=001)"
  | EvDisc ErrMinus1 -> Some "E0:disconnect(err=-1,is=001)"
  | EvRawConnect -> Some "E0:raw_connect"
  | EvTls _ -> Some "TLS:start=ok"
  | EvHdr (fd, tls, to_, comp) ->
      Some (Printf.sprintf "H%d:%s:%s:%s" (int_of_nat fd) (if tls then "T" else "W") (hex_of_zs to_) (if comp then "c" else "j"))
  | EvTimedOut (_, _) -> None
  | EvTick -> Some "|"
  | EvFuel -> Some "FUEL"

let () = iter_lines (fun line ->
  if line = "" then "" else
  let jid = ref None and pass = ref false and flags = ref 0 and srv = ref None in
  let gais = ref [] and eps = ref [] and conn = ref None and ops = ref [] in
  List.iter (fun cmd ->
    match split_ws cmd with
    | ["jid"; h] -> jid := Some (str_of_hex h)
    | ["pass"; _] -> pass := true
    | ["flags"; f] -> flags := int_of_string f
    | ["srv"; "fail"] -> srv := None
    | ["srv"; h] ->
        (match (if h = "-" then LDone (Z0, []) else lookup (zs_of_hex h)) with
         | LDone (st, l) when int_of_z st = 1 && l <> [] ->
             srv := Some (List.map (fun r ->
               { sr_target = (match cstr r.rr_target with Some s -> s | None -> r.rr_target);
                 sr_port = r.rr_port; sr_prio = r.rr_priority; sr_weight = r.rr_weight }) l)
         | _ -> srv := None)
    | ["gai"; h; n] -> gais := !gais @ [(str_of_hex h, if n = "fail" then 0 else int_of_string n)]
    | ["ep"; l] -> eps := !eps @ List.map beh_of_string (String.split_on_char ',' l)
    | "connect" :: ty :: rest ->
        let host = (match rest with h :: _ when h <> "-" -> Some (str_of_hex h) | _ -> None) in
        let port = (match rest with [_; p] -> (int_of_string p) land 65535 | _ -> 0) in
        conn := Some (ty, host, port)
    | ["run"] -> ops := OpRun :: !ops
    | ["run"; n] -> for _ = 1 to int_of_string n do ops := OpRun :: !ops done
    | ["clock"; d] -> ops := OpClock (z_of_int (int_of_string d)) :: !ops
    | _ -> ()) (String.split_on_char ';' line);
  match !conn with
  | None -> "NOCONNECT"
  | Some (ty, host, port) ->
      let gai h = let s = str_of_zs h in nat_of_int (try List.assoc s !gais with Not_found -> 1) in
      let eps_a = Array.of_list !eps in
      let behv k = let k = int_of_nat k in if k < Array.length eps_a then eps_a.(k) else Accept in
      let cfg = { cf_type = (match ty with "raw" -> Raw | "component" -> Component | _ -> Client);
                  cf_flags = z_of_int !flags;
                  cf_jid = (match !jid with Some j -> Some (zs_of_str j) | None -> None);
                  cf_domain = (match !jid with Some j -> zs_of_str (jid_domain j) | None -> []);
                  cf_pass = !pass;
                  cf_host = (match host with Some h -> Some (zs_of_str h) | None -> None);
                  cf_port = z_of_int port } in
      let (c, tr) = scenario gai behv fx cfg !srv (z_of_int 1000000) (List.rev !ops) in
      let toks = List.filter_map show_ev tr in
      (* xmpp_conn_is_connecting is also true while the stream is not negotiated; a raw connection counts as negotiated *)
      let st = (match c.cn_state with Connecting -> "100" | Connected -> if ty = "raw" then "010" else "100" | Disconnected -> "001") in
      String.concat " " (toks @ [Printf.sprintf "S=%s,sec=%d" st (if c.cn_secured then 1 else 0)]))
