(* C15 model driver: same protocol as harness/c/c15_driver.c
   input : "<hex of the DNS message>"
   output: "F <n> <prio>,<weight>,<port>,<hex of target C string or ->;..." | "N" | "N list=<n>" | "S <status>"
           "OOB" / "FUEL" when the model left the buffer / ran out of fuel *)
let show_rr r =
  Printf.sprintf "%d,%d,%d,%s" (int_of_z r.rr_priority) (int_of_z r.rr_weight) (int_of_z r.rr_port)
    (match cstr r.rr_target with Some s -> hex_of_zs s | None -> "UNTERMINATED")
let () = iter_lines (fun line ->
  if line = "" then "" else
  match lookup (zs_of_hex line) with
  | LOOB -> "OOB"
  | LFuel -> "FUEL"
  | LDone (st, l) ->
      let st = int_of_z st and n = List.length l in
      let body = String.concat ";" (List.map show_rr l) in
      if st = 1 then (if n = 0 then "F 0" else Printf.sprintf "F %d %s" n body)
      else if st = 0 then (if n = 0 then "N" else Printf.sprintf "N list=%d %s" n body)
      else Printf.sprintf "S %d" st)
