(* C15 model driver: same protocol as harness/c/c15_driver.c
   input : "<hex of the DNS message>"
   output: "F <n> <prio>,<weight>,<port>,<hex of target C string or ->;..." | "N" | "N list=<n>" | "S <status>"
           "OOB" / "FUEL" when the model left the buffer / ran out of fuel *)
let show_rr r =
  Printf.sprintf "%d,%d,%d,%s" (int_of_z r.rr_priority) (int_of_z r.rr_weight) (int_of_z r.rr_port)
    (match cstr r.rr_target with Some s -> hex_of_zs s | None -> "UNTERMINATED")
(* "?" -> fingerprint of the regenerated constants / guards the model was extracted with, so that the
   check can tell that this executable belongs to the source tree under test *)
let bit b = if b then "1" else "0"
let zi = z_of_int
let fingerprint () =
  let ints l = String.concat "," (List.map (fun z -> string_of_int (int_of_z z)) l) in
  let tri f = String.concat "" (List.map (fun a -> bit (f (zi a) (zi 5))) [4; 5; 6]) in
  let sw = String.concat "" (List.concat_map (fun cp -> List.concat_map (fun cw -> List.concat_map (fun np ->
             List.map (fun nw -> bit (srv_swap (zi cp) (zi cw) (zi np) (zi nw))) [1; 2]) [1; 2]) [1; 2]) [1; 2]) in
  let one f = String.concat "" (List.map (fun a -> bit (f (zi a))) [-1; 0; 1]) in
  let full = String.concat "" (List.concat_map (fun a -> List.map (fun m -> bit (name_full (zi a) (zi m))) [0; 4; 5; 6]) [4; 5; 6]) in
  let room = ints (List.map (fun a -> room_left (zi 5) (zi a)) [4; 5; 6]) in
  Printf.sprintf "consts %s ovf=%s ovfcmp=%s ptr=%s swap=%s idx=%s lend=%s,%d full=%s room=%s copy=%s term=%s fix=%s"
    (ints [mESSAGE_HEADER_LEN; mESSAGE_RESPONSE; mESSAGE_T_SRV; mESSAGE_C_IN; mAX_DOMAIN_LEN; xMPP_DOMAIN_NOT_FOUND;
           xMPP_DOMAIN_FOUND; hdr_octet2_off; hdr_octet3_off; hdr_qdcount_off; hdr_ancount_off; qr_shift; qr_mask;
           rcode_mask; q_tail; rr_type_off; rr_class_off; rr_rdlength_off; rr_fixed_len; srv_prio_off; srv_weight_off;
           srv_port_off; srv_target_off; label_mask; label_tag; pointer_tag; pointer_mask; pointer_shift])
    (ints ovf_check_offsets) (tri ovf_check) (tri pointer_guard) sw
    (tri idx_guard) (tri label_end_guard) (int_of_z label_end_adjust) full room (one copy_guard) (one term_guard) (one fixup_guard)
let () = iter_lines (fun line ->
  if line = "" then "" else
  if line = "?" then fingerprint () else
  match lookup (zs_of_hex line) with
  | LOOB -> "OOB"
  | LFuel -> "FUEL"
  | LDone (st, l) ->
      let st = int_of_z st and n = List.length l in
      let body = String.concat ";" (List.map show_rr l) in
      if st = 1 then (if n = 0 then "F 0" else Printf.sprintf "F %d %s" n body)
      else if st = 0 then (if n = 0 then "N" else Printf.sprintf "N list=%d %s" n body)
      else Printf.sprintf "S %d" st)
