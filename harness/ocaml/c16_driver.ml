(* C16 model driver: same line protocol as harness/c/c16_driver.c around the extracted SmBlobModel.
   An abnormal model outcome (OOB / UAF / DoubleFree / Crash / Fuel, i.e. what is undefined behaviour in C)
   prints "ABNORMAL <kind> <fields printed so far>". *)
exception Abn of string

let buf = Buffer.create 4096
let out s = Buffer.add_string buf s
let outf fmt = Printf.ksprintf out fmt

let get = function
  | Ok a -> a | OOB -> raise (Abn "OOB") | UAF -> raise (Abn "UAF") | DoubleFree -> raise (Abn "DoubleFree")
  | Crash -> raise (Abn "Crash") | Fuel -> raise (Abn "Fuel")

let hex_or_z l = if l = [] then "z" else hex_of_zs l
let rec take n l = if n <= 0 then [] else match l with [] -> [] | x :: r -> x :: take (n - 1) r

let text_of_data d len = match d with
  | None -> "N"
  | Some b -> let n = int_of_z len in
    if n = 0 then "z" else if List.length b < n then raise (Abn "OOB") else hex_of_zs (take n b)

let node_at h i = match List.nth_opt h i with Some (Live n) -> n | _ -> raise (Abn "UAF")
let oid = function None -> None | Some n -> Some (int_of_nat n)

let linkage h hd tl =
  let hd = oid hd and tl = oid tl in
  if hd = None && tl = None then "0:E" else begin
    let rec fwd p acc k = match p with
      | None -> List.rev acc
      | Some i -> if k > 1000000 then List.rev acc else fwd (oid (node_at h i).n_next) (i :: acc) (k + 1) in
    let arr = Array.of_list (fwd hd [] 0) in
    let n = Array.length arr in
    match hd, tl with
    | Some hi, Some ti ->
      let last = if n > 0 then Some arr.(n - 1) else None in
      let fH = (node_at h hi).n_prev = None in
      let fT = last = Some ti && (node_at h ti).n_next = None in
      let rec bwd e k =
        if k < 0 || e <> arr.(k) then false
        else if e = hi then k = 0
        else match oid (node_at h e).n_prev with None -> false | Some p -> bwd p (k - 1) in
      let fB = bwd ti (n - 1) in
      Printf.sprintf "%d:%c%c%c" n (if fH then 'H' else 'h') (if fT then 'T' else 't') (if fB then 'B' else 'b')
    | _ -> Printf.sprintf "%d:X" n
  end

let walk_nodes h hd =
  let rec go p acc k = match p with
    | None -> List.rev acc
    | Some i -> if k > 1000000 then List.rev acc else let n = node_at h i in go (oid n.n_next) (n :: acc) (k + 1) in
  go (oid hd) [] 0

let b2i b = if b then 1 else 0

let dump c deref =
  outf "st=%d;neg=%d;" (int_of_z c.c_state) (b2i c.c_neg);
  let sm = match c.c_sm with
    | SmNull -> out "sm=0;"; None
    | _ when not deref -> out "sm=!;"; None
    | SmDangling -> raise (Abn "UAF")
    | SmLive s ->
      outf "sm=1;s=%d;h=%d;id=%s;fl=%d%d%d%d%d;" (int_of_z s.sm_sent) (int_of_z s.sm_handled)
        (match s.sm_id with None -> "N" | Some b -> hex_or_z (cstr b))
        (b2i s.sm_support) (b2i s.sm_enabled) (b2i s.sm_can_resume) (b2i s.sm_resume) (b2i s.sm_r_sent);
      Some s in
  outf "ql=%d;qu=%d;sq=" (int_of_z c.sq_len) (int_of_z c.sq_ulen);
  let sq = walk_nodes c.c_heap c.sq_head in
  if sq = [] then out "-" else
    out (String.concat "," (List.map (fun n ->
      Printf.sprintf "%s.%d.%d.%d.%d" (text_of_data n.n_data n.n_len) (int_of_z n.n_owner) (b2i n.n_wip)
        (int_of_z n.n_written) (match n.n_ud with None -> 0 | Some u -> if Some u = n.n_prev then 1 else 2)) sq));
  (match sm with
   | Some s ->
     out ";mq=";
     let mq = walk_nodes c.c_heap s.mq_head in
     if mq = [] then out "-" else
       out (String.concat "," (List.map (fun n ->
         Printf.sprintf "%d.%s.%d" (int_of_z n.n_smh) (text_of_data n.n_data n.n_len) (int_of_z n.n_owner)) mq))
   | None -> ());
  out ";lk=";
  out (linkage c.c_heap c.sq_head c.sq_tail);
  (match sm with Some s -> out "/"; out (linkage c.c_heap s.mq_head s.mq_tail) | None -> ())

let cb_str = function
  | None -> ""
  | Some SNull -> "~null"
  | Some (SOk cells) ->
    let h = List.fold_left (fun h c -> (h * 257 + (match c with Some b -> int_of_z b | None -> 256) + 1) mod 1000000007) 0 cells in
    Printf.sprintf "~%d:%d" (List.length cells) h
  | Some SBufFull -> raise (Abn "BufFull")
  | Some SOOB -> raise (Abn "OOB") | Some SUAF -> raise (Abn "UAF") | Some SCrash -> raise (Abn "Crash")
  | Some SFuel -> raise (Abn "Fuel")

let parse_op o =
  let arg () = if String.length o > 2 then String.sub o 2 (String.length o - 2) else "" in
  match o.[0] with
  | 's' -> Some (OpSend (zs_of_hex (arg ())))
  | 't' -> Some (OpSendStr (zs_of_hex (arg ())))
  | 'r' -> Some (OpRun (List.map (fun x -> z_of_int (int_of_string x))
                          (List.filter (fun x -> x <> "") (String.split_on_char ',' (arg ())))))
  | 'o' -> Some (OpDrop (z_of_int (-1)))
  | 'y' -> Some (OpDrop (z_of_int (-2)))
  | 'q' -> Some OpQlen
  | 'a' -> Some (OpAck (z_of_int (int_of_string (arg ()))))
  | 'i' -> Some OpIncoming
  | 'c' -> Some OpConnect
  | 'd' -> Some OpDisconnect
  | _ -> None

let run_ops c toks =
  let c = ref c in
  if toks = [] then out "-";
  List.iteri (fun i o ->
    if i > 0 then out ",";
    match parse_op o with
    | None -> out "?"
    | Some op ->
      (match op with
       | (OpAck _ | OpIncoming) when !c.c_sm = SmNull -> outf "%c!" o.[0]
       | _ ->
         let (c1, ob) = get (step !c op) in
         c := c1;
         (match ob with
          | ObSend cb -> outf "%c%s" o.[0] (cb_str cb)
          | ObRun (w, cb) ->
            out "r";
            if w = [] then out "-" else
              out (String.concat "." (List.map (function WBytes l -> hex_of_zs l | WZero -> "z" | WErr -> "E") w));
            out (cb_str cb)
          | ObDrop (t, cb) -> outf "%c%s%s" o.[0] (match t with None -> "N" | Some l -> hex_or_z l) (cb_str cb)
          | ObQlen n -> outf "q%d" (int_of_z n)
          | ObStanza cb -> outf "%c%s" o.[0] (cb_str cb)
          | ObNone -> outf "%c" o.[0]))) toks;
  !c

(* (sent, handled, id, unsent, unacked, has_nul) of a connection, as the C driver's snapshot() takes it *)
let snapshot c =
  match c.c_sm with
  | SmLive s ->
    let txt n = match n.n_data with
      | None -> (true, [])
      | Some b -> let t = take (int_of_z n.n_len) b in (List.exists (fun x -> int_of_z x = 0) t, t) in
    let sq = List.map txt (walk_nodes c.c_heap c.sq_head) in
    let mq = List.map (fun n -> (n.n_smh, snd (txt n))) (walk_nodes c.c_heap s.mq_head) in
    (s.sm_sent, s.sm_handled, (match s.sm_id with None -> None | Some b -> Some (cstr b)),
     List.map snd sq, mq, List.exists fst sq)
  | _ -> raise (Abn "UAF")

let scenario line =
  let toks = split_ws line in
  let rec split acc = function [] -> None | "/" :: r -> Some (List.rev acc, r) | x :: r -> split (x :: acc) r in
  match split [] toks with
  | None -> out "?"
  | Some (pre, post) ->
    let kind = List.hd pre in
    out (String.make 1 kind.[0]);
    let finals = ref [] in
    let blob, snap =
      if kind = "S" then begin
        match pre with
        | _ :: sent :: handled :: id :: sops ->
          let src = source_conn (z_of_int (int_of_string sent)) (z_of_int (int_of_string handled)) (zs_of_hex id) in
          out " sops=";
          let src = run_ops src sops in
          out " src="; dump src true;
          out " blob=";
          let b = (match serialize src with
            | SNull -> out "null"; []
            | SOk cells ->
              if cells = [] then out "-" else
                out (String.concat "" (List.map (function Some b -> Printf.sprintf "%02x" (int_of_z b) | None -> "??") cells));
              List.map (function Some b -> b | None -> z_of_int 170) cells
            | SBufFull -> raise (Abn "BufFull") | SOOB -> raise (Abn "OOB") | SUAF -> raise (Abn "UAF")
            | SCrash -> raise (Abn "Crash") | SFuel -> raise (Abn "Fuel")) in
          finals := src :: !finals;
          (b, Some (snapshot src))
        | _ -> raise (Abn "syntax")
      end else (zs_of_hex (List.nth pre 1), None) in
    let (rc, rst) = get (restore fresh_conn blob) in
    let rc = int_of_z rc in
    let sm_ok = rc = 0 || rst.c_sm = SmNull in
    outf " rc=%d rst=" rc; dump rst sm_ok;
    let twin =
      if rc = 0 && rst.c_sm <> SmNull then begin
        let (sent, handled, id, us, ua, nul) = match snap with Some s -> s | None -> snapshot rst in
        if nul then (out " twin=nul"; None) else begin
          let t = get (native sent handled (match id with Some i -> i | None -> []) us ua) in
          out " twin="; dump t true; Some t end
      end else None in
    out " ops=";
    let rst = run_ops rst post in
    out " fin="; dump rst sm_ok;
    finals := rst :: !finals;
    (match twin with
     | Some t ->
       out " tops=";
       let t = run_ops t post in
       out " tfin="; dump t true;
       finals := t :: !finals
     | None -> ());
    let leak = List.fold_left (fun a c -> a + int_of_z (live_count (get (release (op_disconnect c))))) 0 !finals in
    outf " leak=%d rel=ok" leak

let () = iter_lines (fun line ->
  if line = "" then "" else begin
    Buffer.clear buf;
    (try scenario line; Buffer.contents buf
     with Abn k -> "ABNORMAL " ^ k ^ " " ^ Buffer.contents buf
        | Failure m -> "ABNORMAL failure:" ^ m
        | Not_found -> "ABNORMAL notfound"
        | Invalid_argument m -> "ABNORMAL invalid:" ^ m)
  end)
