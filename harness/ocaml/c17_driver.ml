(* C17 model driver: same line protocol as harness/c/c17_driver.c (see there). *)
let res = function HOk d -> hex_of_zs d | HReject -> "REJECT" | HFuel -> "FUEL" | HOOB -> "OOB"
let lens_of s = if s = "-" then [] else List.map int_of_string (String.split_on_char ',' s)
let rec take n l = if n = 0 then [] else match l with [] -> failwith "split" | x :: r -> x :: take (n-1) r
let rec drop n l = if n = 0 then l else match l with [] -> failwith "split" | _ :: r -> drop (n-1) r
let rec cut msg = function [] -> if msg = [] then [] else failwith "split-rest" | n :: r -> take n msg :: cut (drop n msg) r
let str_of_zs l = String.concat "" (List.map (fun z -> String.make 1 (Char.chr (int_of_z z))) l)
let () = iter_lines (fun line ->
  if line = "" then "" else
  match split_ws line with
  | ["U"; alg; msg; lens] ->
      let chunks = cut (zs_of_hex msg) (lens_of lens) in
      let r = (match alg with
        | "sha1" -> sha1_run chunks | "sha256" -> sha256_run chunks
        | "sha512" -> sha512_run chunks | "md5" -> md5_run chunks | _ -> failwith "alg") in
      "U " ^ alg ^ " " ^ res r
  | ["O"; alg; msg] ->
      let m = zs_of_hex msg in
      let r = (match alg with
        | "sha1" -> sha1_oneshot m | "sha256" -> sha256_oneshot m
        | "sha512" -> sha512_oneshot m | "md5" -> md5_oneshot m | _ -> failwith "alg") in
      "O " ^ alg ^ " " ^ res r
  | ["M"; alg; key; msg] ->
      let k = zs_of_hex key and m = zs_of_hex msg in
      let r = (match alg with
        | "sha1" -> hmac_sha1 k m | "sha256" -> hmac_sha256 k m | "sha512" -> hmac_sha512 k m | _ -> failwith "alg") in
      "M " ^ alg ^ " " ^ res r
  | ["A"; slen; msg; lens] ->
      let chunks = cut (zs_of_hex msg) (lens_of lens) in
      (match xmpp_sha1_run chunks (z_of_int (int_of_string slen)) with
       | HOk (Some s) -> "A " ^ str_of_zs s
       | HOk None -> "A null"
       | HReject -> "A REJECT" | HFuel -> "A FUEL" | HOOB -> "A OOB")
  | ["X"; msg] ->
      let m = zs_of_hex msg in
      (match xmpp_sha1 m, xmpp_sha1_digest m with
       | HOk (Some s), HOk d -> "X " ^ str_of_zs s ^ " " ^ hex_of_zs d
       | HOk None, _ -> "X null"
       | _ -> "X ERR")
  | _ -> "?")
