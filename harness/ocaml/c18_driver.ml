let cells_hex cells n =
  if n = 0 then "-" else
  let rec go l k = if k = 0 then [] else match l with
    | [] -> ["!!"] | Some b :: r -> Printf.sprintf "%02x" (int_of_z b) :: go r (k-1) | None :: r -> "??" :: go r (k-1) in
  String.concat "" (go cells n)
let () = iter_lines (fun line ->
  if line = "" then "" else
  let op = line.[0] in
  let arg = zs_of_hex (String.sub line 2 (String.length line - 2)) in
  match op with
  | 'E' -> "E " ^ hex_of_zs (encode arg)
  | 'D' -> (match decode_bin arg with
            | DOk (buf, n) -> let n = int_of_z n in Printf.sprintf "D %d %s" n (cells_hex buf n)
            | DReject -> "D null" | DOOB -> "D OOB")
  | 'S' -> (match decode_str arg with SOk l -> "S " ^ hex_of_zs l | SNull -> "S null" | SBad -> "S uninit")
  | _ -> "?")
