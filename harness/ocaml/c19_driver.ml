(* C19 model driver: same protocol as harness/c/c19_driver.c *)
let show = function JStr s -> hex_of_zs s | JNull -> "null" | JOOB -> "OOB"
let split j =
  String.concat " " [show (jid_bare j); show (jid_node j); show (jid_domain j); show (jid_resource j)]
let arg tok = if tok = "null" then None else Some (zs_of_hex tok)
let () = iter_lines (fun line ->
  if line = "" then "" else
  match split_ws line with
  | ["P"; j] -> "P " ^ split (zs_of_hex j)
  | ["N"; n; d; r] ->
      (match jid_new (arg n) (arg d) (arg r) with
       | JStr j -> "N " ^ hex_of_zs j ^ " " ^ split j
       | other -> "N " ^ show other)
  | _ -> "?")
