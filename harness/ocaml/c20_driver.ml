(* C20 model driver.  One scenario per line:   <mode><dont_reset 0|1>;op;op;...
   mode  S = stored codec (identity + flush marker; compressed input of the peer is given in that encoding)
         R = replay codec: the answers of the real deflate()/inflate() calls are part of the scenario
   ops   D in,room,flush,consumed,ret,<hex out>     one recorded deflate call   (R only; collected before the run)
         F in,room,consumed,ret,<hex out>           one recorded inflate call   (R only; collected before the run)
         U <hex>           xmpp_send_raw
         T t1,t2,..        write schedule: all k<n> again err
         X <hex>           the peer's next chunk (compressed bytes; stored mode: plain bytes, `m` = flush marker after it)
         Xm <hex>          stored mode: the chunk followed by a flush marker
         Xn <len>          R mode: a chunk of <len> bytes (content irrelevant: inflate is replayed)
         XC / XR           orderly close / reset
         I                 xmpp_run_once
   output: the trace in the vocabulary of harness/c/c20_hooks.c
         w<len>=<ret>  n<len>=<ret>:<hex>  p<hex>  E<err>  |      and FAULT:oob / FAULT:fuel at the end
     stored mode prints n<len>=<ret>:<hex of the accepted bytes without flush markers> *)
let sched_of s =
  List.map (fun t ->
    if t = "all" then TAll else if t = "again" then TAgain else if t = "err" then TErr
    else if String.length t > 1 && t.[0] = 'k' then TK (z_of_int (int_of_string (String.sub t 1 (String.length t - 1))))
    else failwith "sched") (String.split_on_char ',' s)
let rec take n l = if n <= 0 then [] else match l with [] -> [] | x :: t -> x :: take (n - 1) t
let ints s = List.map int_of_string (String.split_on_char ',' s)
let () = iter_lines (fun line ->
  if line = "" then "" else
  let cmds = String.split_on_char ';' line in
  let h = List.hd cmds in
  let stored = (h.[0] = 'S') in
  let dont_reset = (String.length h > 1 && h.[1] = '1') in
  let drecs = ref [] and irecs = ref [] in
  let ops = ref [] in
  let bad = ref "" in
  List.iter (fun c ->
    if c <> "" then
    match split_ws c with
    | ["D"; a; hx] -> (match ints a with
        | [i; r; f; k; ret] -> drecs := { dr_in = nat_of_int i; dr_room = nat_of_int r; dr_flush = z_of_int f;
                                          dr_consumed = nat_of_int k; dr_out = zs_of_hex hx; dr_ret = z_of_int ret } :: !drecs
        | _ -> bad := c)
    | ["F"; a; hx] -> (match ints a with
        | [i; r; k; ret] -> irecs := { ir_in = nat_of_int i; ir_room = nat_of_int r; ir_consumed = nat_of_int k;
                                       ir_out = zs_of_hex hx; ir_ret = z_of_int ret } :: !irecs
        | _ -> bad := c)
    | ["U"; hx] -> ops := OEnq (zs_of_hex hx) :: !ops
    | ["T"; s] -> ops := OTx (sched_of s) :: !ops
    | ["X"; hx] -> ops := ORx (RData (zs_of_hex hx)) :: !ops
    | ["Xm"; hx] -> ops := ORx (RData (zs_of_hex hx @ [fLUSH_MARK])) :: !ops
    | ["Xn"; n] -> ops := ORx (RData (List.init (int_of_string n) (fun _ -> Z0))) :: !ops
    | ["XC"] -> ops := ORx RClose :: !ops
    | ["XR"] -> ops := ORx RReset :: !ops
    | ["I"] -> ops := ORun :: !ops
    | _ -> bad := c) (List.tl cmds);
  if !bad <> "" then "BADOP:" ^ !bad else
  let ops = List.rev !ops in
  let errno0 = z_of_int 115 in
  let out = Buffer.create 4096 in
  let emit s = Buffer.add_string out s; Buffer.add_char out ' ' in
  let show_ev filter e =
    match e with
    | EvW (t, r) -> emit (Printf.sprintf "w%d=%d" (int_of_z t) (int_of_z r))
    | EvN (bs, r) ->
        let ri = int_of_z r in
        if filter then emit (Printf.sprintf "n%d=%d:%s" (List.length bs) ri (hex_of_zs (stored_dec (take ri bs))))
        else emit (Printf.sprintf "n%d=%d:%s" (List.length bs) ri (hex_of_zs bs))
    | EvP bs -> emit ("p" ^ hex_of_zs bs)
    | EvDisc e -> emit (Printf.sprintf "E%d" (int_of_z e))
    | EvIter -> emit "|" in
  let fault_s = function NoFault -> () | FOOB -> emit "FAULT:oob" | FFuel -> emit "FAULT:fuel" in
  if stored then begin
    let w = stored_run (stored_init dont_reset errno0) ops in
    List.iter (show_ev true) (List.rev (w_log w)); fault_s (w_fault w)
  end else begin
    let w = replay_run (replay_init (List.rev !drecs) (List.rev !irecs) dont_reset errno0) ops in
    List.iter (show_ev false) (List.rev (w_log w)); fault_s (w_fault w)
  end;
  String.trim (Buffer.contents out))
