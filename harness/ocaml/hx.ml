(* helpers shared by all model drivers (textually included after `open Model`) *)
let rec pos_of_int n = if n = 1 then XH else if n land 1 = 0 then XO (pos_of_int (n lsr 1)) else XI (pos_of_int (n lsr 1))
let z_of_int n = if n = 0 then Z0 else if n > 0 then Zpos (pos_of_int n) else Zneg (pos_of_int (-n))
let rec int_of_pos = function XH -> 1 | XO p -> 2 * int_of_pos p | XI p -> 2 * int_of_pos p + 1
let int_of_z = function Z0 -> 0 | Zpos p -> int_of_pos p | Zneg p -> - (int_of_pos p)
let rec nat_of_int n = if n <= 0 then O else S (nat_of_int (n - 1))
let rec int_of_nat = function O -> 0 | S n -> 1 + int_of_nat n
let hexval c = match c with '0'..'9' -> Char.code c - 48 | 'a'..'f' -> Char.code c - 87 | 'A'..'F' -> Char.code c - 55 | _ -> failwith "hex"
let ints_of_hex s = if s = "-" || s = "" then [] else
  List.init (String.length s / 2) (fun i -> hexval s.[2*i] * 16 + hexval s.[2*i+1])
let zs_of_hex s = List.map z_of_int (ints_of_hex s)
let hex_of_ints l = if l = [] then "-" else String.concat "" (List.map (fun b -> Printf.sprintf "%02x" (b land 255)) l)
let hex_of_zs l = hex_of_ints (List.map int_of_z l)
let split_ws s = List.filter (fun x -> x <> "") (String.split_on_char ' ' s)
let iter_lines f =
  (try while true do let l = input_line stdin in print_string (f l); print_newline () done with End_of_file -> ())
