(* driver around the extracted NegModel: one abstract scenario per line -> one trace line *)
let char_of_ascii (Ascii (b0,b1,b2,b3,b4,b5,b6,b7)) =
  let v b k = if b then 1 lsl k else 0 in
  Char.chr (v b0 0 + v b1 1 + v b2 2 + v b3 3 + v b4 4 + v b5 5 + v b6 6 + v b7 7)
let rec ocaml_string = function EmptyString -> "" | String (a, r) -> String.make 1 (char_of_ascii a) ^ ocaml_string r
let scram_names = List.map ocaml_string scram_order
let b c = c = '1'
let ns_of_int = function 0 -> NsStreams | 1 -> NsTls | 2 -> NsSasl | 3 -> NsCompress | 4 -> NsSm | 5 -> NsBind | 6 -> NsSession
  | 7 -> NsClient | 8 -> NsComponent | 9 -> NsStanzas | 10 -> NsOther | _ -> NsNone
let name_of_int = function 0 -> NmStream | 1 -> NmError | 2 -> NmFeatures | 3 -> NmProceed | 4 -> NmFailure | 5 -> NmSuccess
  | 6 -> NmChallenge | 7 -> NmCompressed | 8 -> NmEnabled | 9 -> NmResumed | 10 -> NmFailed | 11 -> NmR | 12 -> NmA
  | 13 -> NmHandshake | 14 -> NmIq | 15 -> NmMessage | 16 -> NmPresence | _ -> NmOther
let type_of_int = function 0 -> TyNone | 1 -> TyResult | 2 -> TyError | _ -> TyOther
let id_of_int = function 0 -> IdNone | 1 -> IdBind | 2 -> IdSession | 3 -> IdAuth | _ -> IdOther
let cause_of_int = function 0 -> CNone | 1 -> CItemNotFound | 2 -> CFeatureNotImpl | _ -> COther
let mech_of_char = function 'p' -> MPlain | 'd' -> MDigest | 'a' -> MAnon | 'x' -> MExternal
  | c -> MScram (nat_of_int (Char.code c - 48))
let chars s = List.init (String.length s) (String.get s)
let hexd c = hexval c
(* elem: fields separated by '/' :
   ns/name/type/id/childns(hex digits or -)/starttls/mechs(or -)/zlib/bind/session/session_opt/sm/ch_text/ch_ok/jid/
   sm_resume/sm_id/previd/previd_ok/h_ok/cause/cond/text *)
let elem_of s =
  match String.split_on_char '/' s with
  | [a;n;t;i;cn;stl;ms;z;bd;se;so;sm;cht;cho;chs;jid;smr;smi;pv;pvo;ho;ca;co;tx] ->
    let bb x = x = "1" in
    { e_ns = ns_of_int (int_of_string a); e_name = name_of_int (int_of_string n); e_type = type_of_int (int_of_string t);
      e_id = id_of_int (int_of_string i);
      e_childns = (if cn = "-" then [] else List.map (fun c -> ns_of_int (hexd c)) (chars cn));
      e_starttls = bb stl; e_mechs = (if ms = "-" then [] else List.map mech_of_char (chars ms));
      e_zlib = bb z; e_bind = bb bd; e_session = bb se; e_session_opt = bb so; e_sm = bb sm;
      e_ch_text = bb cht; e_ch_ok = bb cho; e_ch_scram_ok = bb chs; e_jid = bb jid; e_sm_resume = bb smr; e_sm_id = bb smi;
      e_previd = bb pv; e_previd_ok = bb pvo; e_h = z_of_int (int_of_string ho); e_cause = cause_of_int (int_of_string ca);
      e_cond = z_of_int (int_of_string co); e_text = bb tx }
  | _ -> failwith ("bad elem " ^ s)
let item_of s =
  if s = "h1" then IHeader true else if s = "h0" then IHeader false else if s = "z" then IEnd
  else if s = "g" then IGarbage else if String.length s > 2 && s.[0] = 'e' then IElem (elem_of (String.sub s 2 (String.length s - 2)))
  else failwith ("bad item " ^ s)
let epk_of_char = function 'a' -> EpAccept | 'r' -> EpRefuse | 'l' -> EpLate | _ -> EpHang
let after s k = String.sub s k (String.length s - k)
let op_of tok =
  let f = String.split_on_char ':' tok in
  match f with
  | [h] when h.[0] = 'F' -> OpSetFlags (z_of_int (int_of_string (after h 1)))
  | [h] when h.[0] = 'J' -> OpSetJid (b h.[1], b h.[2])
  | [h] when h.[0] = 'P' -> OpSetPass (b h.[1])
  | [h] when h.[0] = 'K' -> OpSetCert (b h.[1])
  | [h; now; p] when h.[0] = 'U' -> OpUserHandlers (z_of_int (int_of_string now), b h.[1], (if p = "-" then None else Some (z_of_int (int_of_string p))))
  | [h; v] when h.[0] = 'V' -> OpEnv (b h.[1], b h.[2], (if v = "-" then [] else List.map b (chars v)))
  | [h; e] when h = "A" -> OpCands (if e = "-" then [] else List.map epk_of_char (chars e))
  | [h; now] when h = "Cc" -> OpConnectClient (z_of_int (int_of_string now))
  | [h; now] when h = "Cr" -> OpConnectRaw (z_of_int (int_of_string now))
  | [h; now] when h = "Cm" -> OpConnectComponent (z_of_int (int_of_string now))
  | "R" :: now :: rd :: rest ->
      let now = z_of_int (int_of_string now) in
      if rd = "n" then OpRun (now, RdNone) else if rd = "c" then OpRun (now, RdClose) else if rd = "x" then OpRun (now, RdReset)
      else OpRun (now, RdChunk (List.map item_of (String.split_on_char ',' (String.concat ":" rest))))
  | [h; now] when h = "D" -> OpDisconnect (z_of_int (int_of_string now))
  | ["S"] -> OpSend | ["Sr"] -> OpSendRaw | ["Q"] -> OpIs | ["O"] -> OpOpenStream | ["L"] -> OpRelease
  | _ -> failwith ("bad op " ^ tok)
let mech_name = function MPlain -> "PLAIN" | MDigest -> "DIGEST-MD5" | MAnon -> "ANONYMOUS" | MExternal -> "EXTERNAL"
  | MScram n -> (try List.nth scram_names (int_of_nat n) with _ -> "SCRAM?")
let welem_str = function
  | WHeader f -> if f then "hdr+from" else "hdr" | WStartTls -> "starttls" | WAuth m -> "auth=" ^ mech_name m
  | WResponse -> "response" | WCompress -> "compress" | WBind r -> if r then "bind+res" else "bind" | WSession -> "session"
  | WEnable r -> if r then "enable+resume" else "enable" | WResume -> "resume" | WAck -> "a" | WReq -> "r" | WLegacy -> "legacy"
  | WHandshake -> "handshake" | WStreamErr -> "serr" | WClose -> "close" | WUser -> "user" | WUserRaw -> "userraw"
let bs x = if x then "1" else "0"
let out_str = function
  | OWire (t, w) -> (if t then "T:" else "W:") ^ welem_str w
  | OConnect -> "E:connect" | ORawConnect -> "E:raw_connect"
  | ODisconnect (e, se) -> Printf.sprintf "E:disconnect(%d%s)" (int_of_z e)
      (match se with None -> "" | Some (c, t) -> Printf.sprintf ",se=%d,%s" (int_of_z c) (bs t))
  | OTlsStart ok -> if ok then "TLS:start=ok" else "TLS:start=fail" | OTlsStop -> "TLS:stop" | OSockClose -> "X"
  | OUserHandler -> "H:user" | OUserTimed -> "H:timed" | OIter -> "|"
  | ORet rc -> Printf.sprintf "R=%d" (int_of_z rc) | OFlags (rc, rb) -> Printf.sprintf "F=%d/%d" (int_of_z rc) (int_of_z rb)
  | OIs (a, c, d, s) -> Printf.sprintf "S=%s%s%s,sec=%s" (bs a) (bs c) (bs d) (bs s)
  | OCrash -> "CRASH"
let () = iter_lines (fun line ->
  if line = "" then "" else
  try
    let ops = List.map op_of (split_ws line) in
    let (_, outs) = run init_state ops in
    (* the executable property statements of Spec/NegSpec.v evaluated on this run of the model *)
    let chk = String.concat "" (List.map (fun x -> if x then "1" else "0") (check_all_init ops)) in
    String.concat " " (List.map out_str outs) ^ " CHK=" ^ chk
  with Failure m -> "MODELERR " ^ m)
