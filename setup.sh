#!/bin/sh
# Build the framework from files on disk only (offline): translator output, all Coq files, extraction.
set -e
cd "$(dirname "$0")"
python3 - <<'PY'
import sys, os
sys.path.insert(0, "tools")
import vlib
vlib.coq_prepare()
ok, out = vlib.coq_make(["all"], keep_going=True, timeout=7200)
print(out[-3000:])
try:
    vlib.build_impl()
except vlib.BuildError as e:
    print("warning: implementation build failed:", e)
sys.exit(0 if ok else 1)
PY
