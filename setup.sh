#!/bin/sh
# Build the framework from files on disk only (offline): translator output, the Coq development of every
# claimed property (full .vo build), extraction, the ASan build of /repo's working tree and the drivers.
set -e
cd "$(dirname "$0")"
python3 - <<'PY'
import json, sys
sys.path.insert(0, "tools")
import vlib
ids = [c["property_id"] for c in json.load(open("MANIFEST.json"))["checks"]]
vlib.coq_prepare()
targets = []
for i in ids:
    targets += ["Properties/Properties_%s.vo" % i, "Extract/Extract_%s.vo" % i]
ok, out = vlib.coq_make(targets, keep_going=True, timeout=7200)
print(out[-2500:])
try:
    vlib.build_impl()
    vlib.build_simworld()
except vlib.BuildError as e:
    print("warning: implementation build failed:", e)
sys.exit(0 if ok else 1)
PY
