"""base64 tables of src/crypto.c -> coq/Gen/Gen_base64.v"""
import translate as T


def generate():
    src = T.strip_comments(T.read_src("src/crypto.c"))
    inv = [T.c_int(t) for t in T.find_array(src, "_base64_invcharmap")]
    chrm = [T.c_int(t) for t in T.find_array(src, "_base64_charmap")]
    out = T.HEADER % "src/crypto.c"
    out += "Definition b64_inv : list Z := %s.\n\n" % T.zlist(inv)
    out += "Definition b64_chr : list Z := %s.\n" % T.zlist(chrm)
    return out
