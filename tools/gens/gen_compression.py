"""Compression-layer constants and the shape of the staging code -> coq/Gen/Gen_compression.v   (property C20)

Re-extracted from /repo on every run (comments and all whitespace are invisible):
  compression.c  STROPHE_COMPRESSION_BUFFER_SIZE; the flush mode of compression_write, the two flush modes of
                 compression_flush (dont_reset ? : ), the flush mode given to inflate, the deflateInit level;
                 the statements of _try_compressed_write_to_network, _compression_write, compression_write,
                 compression_read, _conn_decompress, compression_pending, compression_init that the model mirrors
  event.c        STROPHE_MESSAGE_BUFFER_SIZE; how xmpp_run_once drives the interface (flush once per iteration,
                 pending counted before select, the early return, the read condition, what a read result means)
  auth.c         _handle_compress_result: the layer is installed on <compressed/>, between the parser reset and the
                 new stream header
Each statement is reported as a yes/no fact "the source contains exactly this statement".  CompressionModel mirrors
the code in which all facts are `true`; Proofs/CompressionProofs.v Gen_compression_ok re-checks that together with
the constants (so an edit of one of these statements breaks a proof obligation, independently of the
correspondence run).
"""
import re

import translate as T

ZCONST = {"Z_NO_FLUSH": 0, "Z_PARTIAL_FLUSH": 1, "Z_SYNC_FLUSH": 2, "Z_FULL_FLUSH": 3, "Z_FINISH": 4, "Z_BLOCK": 5,
          "Z_TREES": 6, "Z_DEFAULT_COMPRESSION": -1, "Z_NO_COMPRESSION": 0, "Z_BEST_SPEED": 1, "Z_BEST_COMPRESSION": 9}


def func_body(src, name):
    m = re.search(r"\b" + re.escape(name) + r"\s*\([^;{]*\)\s*\{", src)
    if not m:
        raise T.TranslateError("function %s not found" % name)
    depth = 1
    i = m.end()
    while i < len(src) and depth:
        c = src[i]
        if c == '"' or c == "'":
            j = i + 1
            while src[j] != c:
                if src[j] == "\\":
                    j += 1
                j += 1
            i = j + 1
            continue
        if c == "{":
            depth += 1
        elif c == "}":
            depth -= 1
        i += 1
    if depth:
        raise T.TranslateError("unbalanced braces in %s" % name)
    return src[m.end():i - 1]


def squeeze(text):
    """drop whitespace outside string literals; drop log statements"""
    out = []
    i = 0
    while i < len(text):
        c = text[i]
        if c == '"':
            j = i + 1
            while text[j] != '"':
                if text[j] == "\\":
                    j += 1
                j += 1
            out.append(text[i:j + 1])
            i = j + 1
        elif c.isspace():
            i += 1
        else:
            out.append(c)
            i += 1
    s = "".join(out)
    return re.sub(r"strophe_(?:debug|debug_verbose|error|info|warn)\((?:\"(?:[^\"\\]|\\.)*\"|[^;\"])*\);", "", s)


Z = "comp->compression.stream."
D = "comp->decompression."
FACTS = [
    # name, file, function, statement (whitespace-free)
    ("try_guard", "c", "_try_compressed_write_to_network",
     "ptrdiff_tlen=" + Z + "next_out-(Bytef*)comp->compression.buffer;intbuffer_full=" + Z + "next_out==comp->compression.buffer_end;"
     "if((buffer_full||force)&&len>0){ret=conn_interface_write(&comp->next,comp->compression.buffer,len);if(ret<0)returnret;"),
    ("try_keeps_rest", "c", "_try_compressed_write_to_network",
     "if(ret<len)memmove(comp->compression.buffer,(Bytef*)comp->compression.buffer+ret,len-ret);"
     + Z + "next_out=(Bytef*)comp->compression.buffer+(len-ret);" + Z + "avail_out=STROPHE_COMPRESSION_BUFFER_SIZE-(len-ret);}returnret;"),
    ("cw_reports_consumed", "c", "_compression_write",
     "do{ret=_try_compressed_write_to_network(conn,0);if(ret<0){if(" + Z + "next_in>(Bytef*)buff)return" + Z + "next_in-(Bytef*)buff;returnret;}"),
    ("cw_deflate_status", "c", "_compression_write",
     "ret=deflate(&comp->compression.stream,flush);if(ret==Z_STREAM_END){break;}if(flush&&ret==Z_BUF_ERROR){break;}"
     "if(ret!=Z_OK){conn->error=ret;conn_disconnect(conn);returnret;}ret=" + Z + "next_in-(Bytef*)buff;"),
    ("cw_loop_until_flushed", "c", "_compression_write",
     "}while(" + Z + "next_in<(Bytef*)buff_end||(flush&&" + Z + "avail_out==0));"),
    ("cw_forced_write", "c", "_compression_write",
     "if(flush){ret=_try_compressed_write_to_network(conn,1);if(ret<0){returnret;}}returnret;"),
    ("write_empty", "c", "compression_write", "if(len==0)return0;return_compression_write(intf->conn,buff,len,"),
    ("flush_empty_input", "c", "compression_flush", "return_compression_write(conn,comp->compression.buffer,0,"),
    ("read_pending_first", "c", "compression_read",
     "if(" + D + "stream.next_in!=NULL){return_conn_decompress(comp,0,buff,len);}dbuff=" + D + "buffer;dlen=STROPHE_COMPRESSION_BUFFER_SIZE;"),
    ("read_until_text", "c", "compression_read",
     "do{ret=comp->next.read(intf,dbuff,dlen);if(ret<=0)returnret;ret=_conn_decompress(comp,ret,buff,len);}"
     "while(ret==0&&conn->state==XMPP_STATE_CONNECTED&&" + D + "stream.next_in==NULL);returnret;"),
    ("dec_setup", "c", "_conn_decompress",
     "if(" + D + "stream.next_in==NULL){" + D + "stream.next_in=" + D + "buffer;" + D + "buffer_end=" + D + "stream.next_in+c_len;"
     + D + "stream.avail_in=c_len;}"),
    ("dec_result", "c", "_conn_decompress",
     "caseZ_STREAM_END:caseZ_OK:if(" + D + "buffer_end==" + D + "stream.next_in)" + D + "stream.next_in=NULL;"
     "return" + D + "stream.next_out-(Bytef*)buff;caseZ_BUF_ERROR:break;default:comp->conn->error=ret;conn_disconnect(comp->conn);break;}return0;"),
    ("pending", "c", "compression_pending", "return" + D + "stream.next_in!=NULL||comp->next.pending(intf);"),
    ("init_guard", "c", "compression_init", "if(!conn->compression.allowed||!conn->compression.supported)return-1;"),
    ("init_layers", "c", "compression_init", "comp->next=conn->intf;conn->intf=compression_intf;conn->intf.conn=conn;"),
    ("ev_flush_each_iteration", "e", "xmpp_run_once", "}intf->flush(intf);if(conn->error){"),
    ("ev_counts_pending", "e", "xmpp_run_once", "if(conn->state==XMPP_STATE_CONNECTED)tls_read_bytes+=intf->pending(intf);"),
    ("ev_early_return", "e", "xmpp_run_once", "if(ret==0&&tls_read_bytes==0)return;"),
    ("ev_read_when_pending", "e", "xmpp_run_once",
     "if(FD_ISSET(conn->sock,&rfds)||intf->pending(intf)){ret=intf->read(intf,buf,STROPHE_MESSAGE_BUFFER_SIZE);"
     "if(ret>0){intlen=ret;ret=parser_feed(conn->parser,buf,len);"),
    ("ev_zero_is_close", "e", "xmpp_run_once",
     "interr=intf->get_error(intf);if(!intf->error_is_recoverable(intf,err)){conn->error=err;conn_disconnect(conn);}"
     "elseif(ret==0&&!conn->tls){conn->error=ECONNRESET;conn_disconnect(conn);}"),
    ("auth_installs_on_compressed", "a", "_handle_compress_result",
     "if(strcmp(name,\"compressed\")==0){conn_prepare_reset(conn,_handle_open_sasl);compression_init(conn);conn_open_stream(conn);}return0;"),
    ("auth_requests_when_offered", "a", "_handle_features_compress",
     "if(conn->compression.supported){send_raw(conn,compress,strlen(compress),XMPP_QUEUE_STROPHE,NULL);"
     "handler_add(conn,_handle_compress_result,XMPP_NS_COMPRESSION,NULL,NULL,NULL);}"),
]


def zconst(tok, what):
    tok = tok.strip()
    if tok not in ZCONST:
        raise T.TranslateError("%s: unknown zlib constant %s" % (what, tok))
    return ZCONST[tok]


def generate():
    comp = T.strip_comments(T.read_src("src/compression.c"))
    event = T.strip_comments(T.read_src("src/event.c"))
    auth = T.strip_comments(T.read_src("src/auth.c"))
    src = {"c": comp, "e": event, "a": auth}
    bodies = {}
    for _, f, fn, _ in FACTS:
        if (f, fn) not in bodies:
            bodies[(f, fn)] = squeeze(func_body(src[f], fn))
    bufsz = T.c_int(T.find_define(comp, "STROPHE_COMPRESSION_BUFFER_SIZE"))
    msgsz = T.c_int(T.find_define(event, "STROPHE_MESSAGE_BUFFER_SIZE"))

    m = re.search(r"return_compression_write\(intf->conn,buff,len,(\w+)\);", squeeze(func_body(comp, "compression_write")))
    if not m:
        raise T.TranslateError("compression_write: flush mode not found")
    fl_write = zconst(m.group(1), "compression_write")
    m = re.search(r"conn->compression\.dont_reset\?(\w+):(\w+)\);", squeeze(func_body(comp, "compression_flush")))
    if not m:
        raise T.TranslateError("compression_flush: flush modes not found")
    fl_dont_reset, fl_reset = zconst(m.group(1), "compression_flush"), zconst(m.group(2), "compression_flush")
    m = re.search(r"inflate\(&comp->decompression\.stream,(\w+)\)", squeeze(func_body(comp, "_conn_decompress")))
    if not m:
        raise T.TranslateError("_conn_decompress: inflate call not found")
    fl_inflate = zconst(m.group(1), "_conn_decompress")
    m = re.search(r"deflateInit\(&comp->compression\.stream,(\w+)\)", squeeze(func_body(comp, "compression_init")))
    if not m:
        raise T.TranslateError("compression_init: deflateInit call not found")
    level = zconst(m.group(1), "compression_init")

    out = T.HEADER % "src/compression.c, src/event.c, src/auth.c"
    out += "Definition COMPRESSION_BUFFER_SIZE : Z := %d.\n" % bufsz
    out += "Definition MESSAGE_BUFFER_SIZE : Z := %d.\n" % msgsz
    out += "(* zlib flush modes as numbers: Z_NO_FLUSH 0, Z_PARTIAL_FLUSH 1, Z_SYNC_FLUSH 2, Z_FULL_FLUSH 3, Z_FINISH 4 *)\n"
    out += "Definition flush_code_write : Z := %d.\n" % fl_write
    out += "Definition flush_code_reset : Z := %d.\n" % fl_reset
    out += "Definition flush_code_dont_reset : Z := %d.\n" % fl_dont_reset
    out += "Definition flush_code_inflate : Z := %d.\n" % fl_inflate
    out += "Definition deflate_level : Z := (%d).\n\n" % level
    out += "(* does the source contain exactly the statement the model mirrors? *)\n"
    for name, f, fn, stmt in FACTS:
        out += "Definition src_%s : bool := %s.\n" % (name, "true" if stmt in bodies[(f, fn)] else "false")
    out += "Definition src_facts : list bool := [%s].\n" % "; ".join("src_" + n for n, _, _, _ in FACTS)
    return out
