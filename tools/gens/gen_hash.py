"""Constants of the bundled digests -> coq/Gen/Gen_hash.v

Read from src/sha1.c, sha256.c, sha512.c, md5.c (+ their headers) and the HMAC part of scram.c:
initial values, round constants, the per-round call lists of the unrolled compression
routines (which macro, register order, word index, constant, shift), the rotation amounts of the
Sigma/Gamma macros, block/digest sizes and every numeric threshold of the buffering and padding
code.  Anything that is not found in the expected shape raises TranslateError.
"""
import re

import translate as T

REG5 = "abcde"
REG4 = "abcd"


def _need(m, what):
    if not m:
        raise T.TranslateError(what + " not found")
    return m


def _func(src, name):
    """Body text of function `name` (first definition with a brace body)."""
    for m in re.finditer(r"\b" + re.escape(name) + r"\s*\(", src):
        i = src.find(")", m.end())
        # skip to the matching close paren of the parameter list
        depth, k = 1, m.end()
        while k < len(src) and depth:
            depth += {"(": 1, ")": -1}.get(src[k], 0)
            k += 1
        rest = src[k:].lstrip()
        if not rest.startswith("{"):
            continue
        s = src.index("{", k)
        depth, e = 1, s + 1
        while e < len(src) and depth:
            depth += {"{": 1, "}": -1}.get(src[e], 0)
            e += 1
        return src[s:e]
    raise T.TranslateError("function %s not found" % name)


def _num(tok):
    tok = tok.strip()
    m = re.match(r"^CONST64\((.*)\)$", tok)
    if m:
        tok = m.group(1)
    return T.c_int(tok)


def _expr(tok):
    """tiny evaluator for `64 * 8`, `8 * 64`, `128u`, `64 - 1` style constants"""
    tok = tok.strip()
    if not re.match(r"^[0-9a-fA-FxXuUlL\s*+\-()]+$", tok):
        raise T.TranslateError("not a constant expression: %r" % tok)
    py = re.sub(r"\b(0[xX][0-9a-fA-F]+|\d+)[uUlL]*", r"\1", tok)
    return int(eval(py, {"__builtins__": {}}, {}))


def _all(pattern, text, what, n=None):
    r = re.findall(pattern, text)
    if not r or (n is not None and len(r) != n):
        raise T.TranslateError("%s: expected %s matches, found %d" % (what, n if n is not None else ">=1", len(r)))
    return r


def _one(pattern, text, what):
    r = _all(pattern, text, what)
    if len(set(r)) != 1:
        raise T.TranslateError("%s: ambiguous (%s)" % (what, sorted(set(r))[:5]))
    return r[0]


def _array_dim(hdr, name):
    return _expr(_need(re.search(r"\b" + re.escape(name) + r"\s*\[([^\]]+)\]", hdr), "array " + name).group(1))


def _rot_amounts(src, macro, fn1, fn2):
    """#define Sigma0(x) (S(x, 2) ^ S(x, 13) ^ S(x, 22))  ->  [2,13,22]; the third may be R (shift)"""
    m = _need(re.search(r"#\s*define\s+" + macro + r"\(x\)\s*\(\s*" + fn1 + r"\(x,\s*(\d+)\)\s*\^\s*" + fn1 +
                        r"\(x,\s*(\d+)\)\s*\^\s*" + fn2 + r"\(x,\s*(\d+)\)\s*\)", src), "macro " + macro)
    return [int(g) for g in m.groups()]


def zdef(name, v):
    return "Definition %s : Z := %d.\n" % (name, v)


def ldef(name, vals, per=8):
    return "Definition %s : list Z := %s.\n" % (name, T.zlist(vals, per))


def rows(name, ty, rws):
    body = ";\n".join("  (" + ", ".join(str(x) for x in r) + ")" for r in rws)
    return "Definition %s : list (%s) := [\n%s\n].\n" % (name, ty, body)


# ---------------------------------------------------------------------------------------
def gen_sha1():
    src = T.strip_comments(T.read_src("src/sha1.c"))
    hdr = T.strip_comments(T.read_src("src/sha1.h"))
    out = "(* ---- SHA-1 (src/sha1.c) ---- *)\n"
    init = _func(src, "crypto_SHA1_Init")
    iv = _all(r"context->state\[(\d)\]\s*=\s*(0x[0-9A-Fa-f]+)", init, "SHA-1 IV", 5)
    if [int(i) for i, _ in iv] != list(range(5)):
        raise T.TranslateError("SHA-1 IV order")
    out += ldef("sha1_iv", [_num(v) for _, v in iv])
    # round macros: constant and the two rotate amounts
    ks = []
    for r in range(5):
        m = _need(re.search(r"#\s*define\s+R%d\(v,\s*w,\s*x,\s*y,\s*z,\s*i\)((?:[^\n]*\\\n)*[^\n]*)" % r, src), "macro R%d" % r)
        body = m.group(1).replace("\\\n", " ")
        k = _one(r"\+\s*(0x[0-9A-Fa-f]{8})\s*\+", body, "R%d constant" % r)
        rv = _one(r"rol\(v,\s*(\d+)\)", body, "R%d rol(v)" % r)
        rw = _one(r"w\s*=\s*rol\(w,\s*(\d+)\)", body, "R%d rol(w)" % r)
        ks.append((_num(k), int(rv), int(rw)))
    out += rows("sha1_macros", "Z * Z * Z", ks) + "(* per macro R0..R4: constant, rol(v,.), rol(w,.) *)\n"
    tr = _func(src, "SHA1_Transform")
    calls = _all(r"\bR([0-4])\(\s*([a-e])\s*,\s*([a-e])\s*,\s*([a-e])\s*,\s*([a-e])\s*,\s*([a-e])\s*,\s*(\d+)\s*\)", tr, "SHA-1 round calls", 80)
    rws = []
    for c in calls:
        perm = "".join(str(REG5.index(x) + 1) for x in c[1:6])
        rws.append((int(c[0]), int(perm), int(c[6])))
    out += rows("sha1_rounds", "Z * Z * Z", rws) + "(* macro, register order vwxyz as digits (a=1..e=5), i *)\n"
    m = _need(re.search(r"#\s*define\s+blk\(i\)((?:[^\n]*\\\n)*[^\n]*)", src), "macro blk")
    body = m.group(1).replace("\\\n", " ")
    offs = _all(r"\(i\s*\+\s*(\d+)\)\s*&\s*15", body, "blk offsets", 3)
    rot = _one(r",\s*(\d+)\s*\)\s*\)\s*$", body.strip(), "blk rotate")
    out += ldef("sha1_blk_offsets", [int(x) for x in offs]) + zdef("sha1_blk_rol", int(rot))
    out += zdef("sha1_block", _array_dim(hdr, "buffer"))
    out += zdef("sha1_digest_size", _expr(T.find_define(hdr, "SHA1_DIGEST_SIZE")))
    upd = _func(src, "crypto_SHA1_Update")
    m = _need(re.search(r"j\s*=\s*\(context->count\[0\]\s*>>\s*(\d+)\)\s*&\s*(\d+)", upd), "SHA-1 j index")
    out += zdef("sha1_idx_shift", int(m.group(1))) + zdef("sha1_idx_mask", int(m.group(2)))
    out += zdef("sha1_len_shift", int(_one(r"\(uint32_t\)len\s*<<\s*(\d+)", upd, "SHA-1 len shift")))
    out += zdef("sha1_hi_shift", int(_need(re.search(r"\(uint32_t\)\(len\s*>>\s*(\d+)\)", upd), "SHA-1 high shift").group(1)))
    out += zdef("sha1_split", int(_need(re.search(r"\(j\s*\+\s*len\)\s*>\s*(\d+)", upd), "SHA-1 split").group(1)))
    out += zdef("sha1_first_fill", int(_need(re.search(r"i\s*=\s*(\d+)\s*-\s*j", upd), "SHA-1 fill").group(1)))
    m = _need(re.search(r"for\s*\(\s*;\s*i\s*\+\s*(\d+)\s*<\s*len\s*;\s*i\s*\+=\s*(\d+)\s*\)", upd), "SHA-1 block loop")
    out += zdef("sha1_loop_look", int(m.group(1))) + zdef("sha1_loop_step", int(m.group(2)))
    fin = _func(src, "crypto_SHA1_Final")
    m = _need(re.search(r"\(context->count\[0\]\s*&\s*(\d+)\)\s*!=\s*(\d+)", fin), "SHA-1 pad loop")
    out += zdef("sha1_pad_mask", int(m.group(1))) + zdef("sha1_pad_target", int(m.group(2)))
    m = _need(re.search(r'crypto_SHA1_Update\(context,\s*\(uint8_t\s*\*\)"\\(\d+)",\s*1\)', fin), "SHA-1 0x80 byte")
    out += zdef("sha1_pad_first", int(m.group(1), 8))
    m = _need(re.search(r"count\[\(i\s*>=\s*(\d+)\s*\?\s*(\d)\s*:\s*(\d)\)\]", fin), "SHA-1 finalcount")
    out += ldef("sha1_finalcount_sel", [int(m.group(1)), int(m.group(2)), int(m.group(3))])
    return out


def _tom(name, bits):
    """sha256.c / sha512.c (LibTomCrypt shape)"""
    src = T.strip_comments(T.read_src("src/%s.c" % name))
    hdr = T.strip_comments(T.read_src("src/%s.h" % name))
    out = "(* ---- %s (src/%s.c) ---- *)\n" % (name.upper(), name)
    nr = 64 if bits == 32 else 80
    init = _func(src, name + "_init")
    iv = _all(r"md->state\[(\d)\]\s*=\s*((?:CONST64\()?0x[0-9A-Fa-f]+(?:UL)?\)?)", init, name + " IV", 8)
    if [int(i) for i, _ in iv] != list(range(8)):
        raise T.TranslateError(name + " IV order")
    out += ldef(name + "_iv", [_num(v) for _, v in iv], 4)
    comp = _func(src, name + "_compress")
    reg = r"S\[(\d)\]"
    if bits == 32:
        calls = _all(r"\bRND\(\s*" + r"\s*,\s*".join([reg] * 8) + r"\s*,\s*(\d+)\s*,\s*(0x[0-9A-Fa-f]+)\s*\)", comp, name + " RND calls", nr)
        rws = [(int("".join(str(int(x) + 1) for x in c[:8])), int(c[8]), _num(c[9])) for c in calls]
        out += rows(name + "_rounds", "Z * Z * Z", rws) + "(* register order a..h as digits (S[0]=1..S[7]=8), word index, round constant *)\n"
    else:
        k = [_num(t) for t in T.find_array(src, "K")]
        if len(k) != nr or _array_dim(src, "K") != nr:
            raise T.TranslateError("sha512 K[] size")
        out += ldef(name + "_K", k, 4)
        m = _need(re.search(r"for\s*\(\s*i\s*=\s*0\s*;\s*i\s*<\s*(\d+)\s*;\s*i\s*\+=\s*(\d+)\s*\)", comp), "sha512 round loop")
        out += zdef(name + "_loop_bound", int(m.group(1))) + zdef(name + "_loop_step", int(m.group(2)))
        calls = _all(r"\bRND\(\s*" + r"\s*,\s*".join([reg] * 8) + r"\s*,\s*i\s*\+\s*(\d+)\s*\)", comp, name + " RND calls", 8)
        rws = [(int("".join(str(int(x) + 1) for x in c[:8])), int(c[8])) for c in calls]
        out += rows(name + "_rounds8", "Z * Z", rws) + "(* register order a..h as digits (S[0]=1..S[7]=8), offset added to i *)\n"
        m = _need(re.search(r"\+\s*K\[i\]\s*\+\s*W\[i\]", src), "sha512 RND uses K[i] + W[i]")
    m = _need(re.search(r"W\[i\]\s*=\s*Gamma1\(W\[i\s*-\s*(\d+)\]\)\s*\+\s*W\[i\s*-\s*(\d+)\]\s*\+\s*Gamma0\(W\[i\s*-\s*(\d+)\]\)\s*\+\s*W\[i\s*-\s*(\d+)\]", comp),
              name + " schedule")
    out += ldef(name + "_sched", [int(g) for g in m.groups()])
    m = _need(re.search(r"for\s*\(\s*i\s*=\s*(\d+)\s*;\s*i\s*<\s*(\d+)\s*;\s*i\+\+\s*\)\s*\{\s*W\[i\]\s*=\s*Gamma1", comp), name + " schedule loop")
    out += ldef(name + "_sched_range", [int(m.group(1)), int(m.group(2))])
    out += ldef(name + "_Sigma0", _rot_amounts(src, "Sigma0", "S", "S"))
    out += ldef(name + "_Sigma1", _rot_amounts(src, "Sigma1", "S", "S"))
    out += ldef(name + "_Gamma0", _rot_amounts(src, "Gamma0", "S", "R"))
    out += ldef(name + "_Gamma1", _rot_amounts(src, "Gamma1", "S", "R"))
    out += zdef(name + "_block", _array_dim(hdr, "buf"))
    out += zdef(name + "_digest_size", _expr(T.find_define(hdr, name.upper() + "_DIGEST_SIZE")))
    proc = _func(src, name + "_process")
    m = _need(re.search(r"md->curlen\s*==\s*0\s*&&\s*inlen\s*>=\s*(\d+)", proc), name + " fast path")
    out += zdef(name + "_fast_min", int(m.group(1)))
    m = _need(re.search(r"if\s*\(md->curlen\s*==\s*0[^{]*\{\s*" + name + r"_compress\(md,\s*in\);\s*md->length\s*\+=\s*([^;]+);\s*in\s*\+=\s*(\d+);\s*inlen\s*-=\s*(\d+);", proc),
              name + " fast path body")
    out += zdef(name + "_fast_bits", _expr(m.group(1))) + zdef(name + "_fast_adv", int(m.group(2))) + zdef(name + "_fast_dec", int(m.group(3)))
    fills = _all(r"\(\s*([0-9uU]+)\s*-\s*md->curlen\s*\)", proc, name + " fill", 2)
    if len(set(fills)) != 1:
        raise T.TranslateError(name + " fill constants differ")
    out += zdef(name + "_fill", _expr(fills[0]))
    m = _need(re.search(r"if\s*\(md->curlen\s*==\s*(\d+)\)\s*\{\s*" + name + r"_compress\(md,\s*md->buf\);\s*md->length\s*\+=\s*([^;]+);\s*md->curlen\s*=\s*0;", proc),
              name + " full-buffer flush")
    out += zdef(name + "_full", int(m.group(1))) + zdef(name + "_full_bits", _expr(m.group(2)))
    done = _func(src, name + "_done")
    m = _need(re.search(r"md->length\s*\+=\s*md->curlen\s*\*\s*((?:CONST64\()?\d+\)?)", done), name + " done length")
    out += zdef(name + "_done_bits_per_byte", _num(m.group(1)))
    m = _need(re.search(r"md->buf\[md->curlen\+\+\]\s*=\s*\(uint8_t\)(0x[0-9A-Fa-f]+)", done), name + " 0x80")
    out += zdef(name + "_pad_first", _num(m.group(1)))
    m = _need(re.search(r"if\s*\(md->curlen\s*>\s*(\d+)\)\s*\{\s*while\s*\(md->curlen\s*<\s*(\d+)\)", done), name + " two-block case")
    out += zdef(name + "_done_thresh", int(m.group(1))) + zdef(name + "_done_fill", int(m.group(2)))
    whiles = _all(r"while\s*\(md->curlen\s*<\s*(\d+)\)", done, name + " pad loops", 2)
    out += zdef(name + "_done_pad_to", int(whiles[1]))
    m = _need(re.search(r"STORE64H\(md->length,\s*md->buf\s*\+\s*(\d+)\)", done), name + " length offset")
    out += zdef(name + "_len_off", int(m.group(1)))
    return out


def gen_md5():
    src = T.strip_comments(T.read_src("src/md5.c"))
    hdr = T.strip_comments(T.read_src("src/md5.h"))
    out = "(* ---- MD5 (src/md5.c) ---- *)\n"
    init = _func(src, "MD5Init")
    iv = _all(r"ctx->buf\[(\d)\]\s*=\s*(0x[0-9A-Fa-f]+)", init, "MD5 IV", 4)
    if [int(i) for i, _ in iv] != list(range(4)):
        raise T.TranslateError("MD5 IV order")
    out += ldef("md5_iv", [_num(v) for _, v in iv])
    tr = _func(src, "MD5Transform")
    calls = _all(r"MD5STEP\(\s*F([1-4])\s*,\s*([a-d])\s*,\s*([a-d])\s*,\s*([a-d])\s*,\s*([a-d])\s*,\s*in\[(\d+)\]\s*\+\s*(0x[0-9A-Fa-f]+)\s*,\s*(\d+)\s*\)",
                 tr, "MD5STEP calls", 64)
    rws = [(int(c[0]), int("".join(str(REG4.index(x) + 1) for x in c[1:5])), int(c[5]), _num(c[6]), int(c[7])) for c in calls]
    out += rows("md5_steps", "Z * Z * Z * Z * Z", rws) + "(* F index, register order wxyz as digits (a=1..d=4), word index, constant, shift *)\n"
    out += zdef("md5_block", _array_dim(hdr, "in"))
    upd = _func(src, "MD5Update")
    out += zdef("md5_len_shift", int(_need(re.search(r"\(uint32_t\)len\s*<<\s*(\d+)", upd), "MD5 len shift").group(1)))
    out += zdef("md5_hi_shift", int(_need(re.search(r"ctx->bits\[1\]\s*\+=\s*len\s*>>\s*(\d+)", upd), "MD5 high shift").group(1)))
    m = _need(re.search(r"t\s*=\s*\(t\s*>>\s*(\d+)\)\s*&\s*(0x[0-9A-Fa-f]+|\d+)", upd), "MD5 t index")
    out += zdef("md5_idx_shift", int(m.group(1))) + zdef("md5_idx_mask", _num(m.group(2)))
    out += zdef("md5_fill", int(_need(re.search(r"t\s*=\s*(\d+)\s*-\s*t\s*;", upd), "MD5 fill").group(1)))
    m = _need(re.search(r"while\s*\(len\s*>=\s*(\d+)\)\s*\{\s*memcpy\(ctx->in,\s*buf,\s*(\d+)\);\s*MD5Transform\(ctx->buf,\s*ctx->in\);\s*buf\s*\+=\s*(\d+);\s*len\s*-=\s*(\d+);", upd),
              "MD5 block loop")
    out += ldef("md5_loop", [int(g) for g in m.groups()])
    fin = _func(src, "MD5Final")
    m = _need(re.search(r"count\s*=\s*\(ctx->bits\[0\]\s*>>\s*(\d+)\)\s*&\s*(0x[0-9A-Fa-f]+|\d+)", fin), "MD5 final count")
    out += zdef("md5_fin_shift", int(m.group(1))) + zdef("md5_fin_mask", _num(m.group(2)))
    out += zdef("md5_pad_first", _num(_need(re.search(r"\*p\+\+\s*=\s*(0x[0-9A-Fa-f]+)", fin), "MD5 0x80").group(1)))
    out += zdef("md5_fin_room", _expr(_need(re.search(r"count\s*=\s*([0-9 \-]+?)\s*-\s*count\s*;", fin), "MD5 room").group(1)))
    out += zdef("md5_fin_thresh", int(_need(re.search(r"if\s*\(count\s*<\s*(\d+)\)", fin), "MD5 two-block threshold").group(1)))
    out += zdef("md5_fin_second", int(_need(re.search(r"memset\(ctx->in,\s*0,\s*(\d+)\)", fin), "MD5 second block fill").group(1)))
    out += zdef("md5_fin_keep", int(_need(re.search(r"memset\(p,\s*0,\s*count\s*-\s*(\d+)\)", fin), "MD5 one-block fill").group(1)))
    offs = _all(r"PUT_32BIT_LSB_FIRST\(ctx->in\s*\+\s*(\d+),\s*ctx->bits\[(\d)\]\)", fin, "MD5 length store", 2)
    out += ldef("md5_len_store", [int(x) for pair in offs for x in pair])
    return out


def gen_hmac():
    src = T.strip_comments(T.read_src("src/scram.c"))
    out = "(* ---- HMAC (src/scram.c) ---- *)\n"
    out += zdef("hmac_ipad", _num(_need(re.search(r"\bipad\s*=\s*(0x[0-9A-Fa-f]+)", src), "ipad").group(1)))
    out += zdef("hmac_opad", _num(_need(re.search(r"\bopad\s*=\s*(0x[0-9A-Fa-f]+)", src), "opad").group(1)))
    h = _func(src, "crypto_HMAC")
    m = _need(re.search(r"blocksize\s*=\s*alg->digest_size\s*<\s*(\d+)\s*\?\s*(\d+)\s*:\s*(\d+)", h), "HMAC block size rule")
    out += ldef("hmac_blocksize_rule", [int(g) for g in m.groups()])
    m = _need(re.search(r"key_ipad\[i\]\s*=\s*key_pad\[i\]\s*\^\s*(\w+);\s*key_opad\[i\]\s*=\s*key_pad\[i\]\s*\^\s*(\w+);", h), "HMAC pad xor")
    # which constant goes to the inner and which to the outer key block (1 = ipad, 2 = opad)
    out += ldef("hmac_pad_use", [{"ipad": 1, "opad": 2}.get(m.group(1), 0), {"ipad": 1, "opad": 2}.get(m.group(2), 0)])
    cr = T.strip_comments(T.read_src("src/crypto.c"))
    d = _func(cr, "digest_to_string")
    fmt = _need(re.search(r'strophe_snprintf\(s\s*\+\s*i\s*\*\s*2,\s*3,\s*"([^"]*)"', d), "hex format").group(1)
    out += "Definition sha1_hex_lowercase : bool := %s.\n" % ("true" if fmt == "%02x" else "false")
    return out


def generate():
    out = T.HEADER % "src/sha1.c src/sha256.c src/sha512.c src/md5.c src/scram.c src/crypto.c (+ headers)"
    out += gen_sha1() + "\n" + _tom("sha256", 32) + "\n" + _tom("sha512", 64) + "\n" + gen_md5() + "\n" + gen_hmac()
    return out
