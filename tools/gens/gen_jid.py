"""JID limits, forbidden local-part characters and separator characters of src/jid.c -> coq/Gen/Gen_jid.v

What is re-extracted on every run (comments/whitespace are invisible):
  xmpp_jid_new       `if (dlen > N)`, `if (nlen > N)`, `if (rlen > N)`  -> largest accepted value of each
                     (`>= N` is understood as largest accepted N-1)
                     the reject set of `strcspn(node, "...")`
                     the characters stored by `result[nlen - 1] = 'c'` and `result[nlen + dlen] = 'c'`
  xmpp_jid_bare      the reject set of `strcspn(jid, "...")`
  xmpp_jid_node      the characters of its two `strchr(.., 'c')` calls, in order (cut, separator)
  xmpp_jid_domain    likewise
  xmpp_jid_resource  the character of its `strchr`
Anything that is not found in that shape raises TranslateError (reported as a broken obligation).
"""
import re

import translate as T

_ESC = {"n": 10, "t": 9, "r": 13, "0": 0, "\\": 92, "'": 39, '"': 34, "a": 7, "b": 8, "f": 12, "v": 11, "?": 63}


def c_string_bytes(body):
    """Bytes of the inside of a C string literal."""
    out = []
    i = 0
    while i < len(body):
        c = body[i]
        if c != "\\":
            out += list(c.encode("latin-1", "replace"))
            i += 1
            continue
        i += 1
        e = body[i]
        if e == "x":
            j = i + 1
            while j < len(body) and body[j] in "0123456789abcdefABCDEF":
                j += 1
            out.append(int(body[i + 1:j], 16) & 255)
            i = j
        elif e in "01234567":
            j = i
            while j < len(body) and j < i + 3 and body[j] in "01234567":
                j += 1
            out.append(int(body[i:j], 8) & 255)
            i = j
        else:
            if e not in _ESC:
                raise T.TranslateError("unknown escape \\%s" % e)
            out.append(_ESC[e])
            i += 1
    return out


def func_body(src, name):
    m = re.search(r"\b" + re.escape(name) + r"\s*\([^;{]*\)\s*\{", src)
    if not m:
        raise T.TranslateError("function %s not found" % name)
    depth = 1
    i = m.end()
    while i < len(src) and depth:
        c = src[i]
        if c == '"' or c == "'":
            j = i + 1
            while src[j] != c:
                if src[j] == "\\":
                    j += 1
                j += 1
            i = j + 1
            continue
        if c == "{":
            depth += 1
        elif c == "}":
            depth -= 1
        i += 1
    if depth:
        raise T.TranslateError("unbalanced braces in %s" % name)
    return src[m.end():i - 1]


STR = r'"((?:[^"\\]|\\.)*)"'
CHR = r"('(?:[^'\\]|\\.[^']*)')"


def limit(body, var):
    ms = re.findall(r"if\s*\(\s*" + var + r"\s*(>=|>)\s*([0-9a-fA-FxXuUlL]+)\s*\)", body)
    if len(ms) != 1:
        raise T.TranslateError("xmpp_jid_new: expected exactly one `if (%s > N)`, found %d" % (var, len(ms)))
    op, n = ms[0]
    n = T.c_int(n)
    return n if op == ">" else n - 1


def strchr_chars(body, fn, expect):
    cs = [T.c_int(c) for c in re.findall(r"\bstrchr\s*\(\s*\w+\s*,\s*" + CHR + r"\s*\)", body)]
    if len(cs) != expect:
        raise T.TranslateError("%s: expected %d strchr(.., 'c') calls, found %d" % (fn, expect, len(cs)))
    return cs


def one(pattern, body, what):
    ms = re.findall(pattern, body)
    if len(ms) != 1:
        raise T.TranslateError("%s: found %d times" % (what, len(ms)))
    return ms[0]


def values():
    src = T.strip_comments(T.read_src("src/jid.c"))
    new = func_body(src, "xmpp_jid_new")
    v = {}
    v["jid_dlen_max"] = limit(new, "dlen")
    v["jid_nlen_max"] = limit(new, "nlen")
    v["jid_rlen_max"] = limit(new, "rlen")
    v["jid_forbidden"] = c_string_bytes(one(r"\bstrcspn\s*\(\s*node\s*,\s*" + STR + r"\s*\)", new,
                                            "xmpp_jid_new: strcspn(node, \"...\")"))
    v["jid_new_at"] = T.c_int(one(r"result\s*\[\s*nlen\s*-\s*1\s*\]\s*=\s*" + CHR + r"\s*;", new,
                                  "xmpp_jid_new: result[nlen - 1] = 'c'"))
    v["jid_new_slash"] = T.c_int(one(r"result\s*\[\s*nlen\s*\+\s*dlen\s*\]\s*=\s*" + CHR + r"\s*;", new,
                                     "xmpp_jid_new: result[nlen + dlen] = 'c'"))
    bare = func_body(src, "xmpp_jid_bare")
    v["jid_bare_stop"] = c_string_bytes(one(r"\bstrcspn\s*\(\s*jid\s*,\s*" + STR + r"\s*\)", bare,
                                            "xmpp_jid_bare: strcspn(jid, \"...\")"))
    v["jid_node_cut"], v["jid_node_sep"] = strchr_chars(func_body(src, "xmpp_jid_node"), "xmpp_jid_node", 2)
    v["jid_domain_cut"], v["jid_domain_sep"] = strchr_chars(func_body(src, "xmpp_jid_domain"), "xmpp_jid_domain", 2)
    (v["jid_resource_sep"],) = strchr_chars(func_body(src, "xmpp_jid_resource"), "xmpp_jid_resource", 1)
    return v


def generate():
    v = values()
    out = T.HEADER % "src/jid.c"
    out += "(* largest accepted strlen(domain), strlen(node)+1, strlen(resource)+1 in xmpp_jid_new *)\n"
    for k in ("jid_dlen_max", "jid_nlen_max", "jid_rlen_max"):
        out += "Definition %s : Z := %d.\n" % (k, v[k])
    out += "\n(* reject set of strcspn(node, ..) in xmpp_jid_new *)\n"
    out += "Definition jid_forbidden : list Z := [%s].\n" % "; ".join(map(str, v["jid_forbidden"]))
    out += "\n(* separators stored by xmpp_jid_new *)\n"
    out += "Definition jid_new_at : Z := %d.\nDefinition jid_new_slash : Z := %d.\n" % (v["jid_new_at"], v["jid_new_slash"])
    out += "\n(* characters searched for by the splitting helpers *)\n"
    out += "Definition jid_bare_stop : list Z := [%s].\n" % "; ".join(map(str, v["jid_bare_stop"]))
    for k in ("jid_node_cut", "jid_node_sep", "jid_domain_cut", "jid_domain_sep", "jid_resource_sep"):
        out += "Definition %s : Z := %d.\n" % (k, v[k])
    return out
