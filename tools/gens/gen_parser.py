"""Constants of src/parser_expat.c -> coq/Gen/Gen_parser.v

Re-extracted on every run (comments/whitespace are invisible):
  namespace_sep          the character of `const XML_Char namespace_sep = '..';`
  inner_text_padding     `#define INNER_TEXT_PADDING n`
  parser_new_*           the initial values parser_new() stores into depth / inner_text_size / inner_text_used
  chars_min_depth        the bound of `if (parser->depth < N) return;` in _characters
Anything that is not found in that shape raises TranslateError (reported as a broken obligation).
"""
import re

import translate as T

CHR = r"('(?:[^'\\]|\\.[^']*)')"


def func_body(src, name):
    m = re.search(r"\b" + re.escape(name) + r"\s*\([^;{]*\)\s*\{", src)
    if not m:
        raise T.TranslateError("function %s not found" % name)
    depth, i = 1, m.end()
    while i < len(src) and depth:
        c = src[i]
        if c in "\"'":
            j = i + 1
            while src[j] != c:
                if src[j] == "\\":
                    j += 1
                j += 1
            i = j + 1
            continue
        depth += {"{": 1, "}": -1}.get(c, 0)
        i += 1
    if depth:
        raise T.TranslateError("unbalanced braces in %s" % name)
    return src[m.end():i - 1]


def one(pattern, body, what):
    ms = re.findall(pattern, body)
    if len(ms) != 1:
        raise T.TranslateError("%s: found %d times" % (what, len(ms)))
    return ms[0]


def values():
    src = T.strip_comments(T.read_src("src/parser_expat.c"))
    v = {}
    v["namespace_sep"] = T.c_int(one(r"\bnamespace_sep\s*=\s*" + CHR + r"\s*;", src, "namespace_sep = 'c'"))
    v["inner_text_padding"] = T.c_int(T.find_define(src, "INNER_TEXT_PADDING"))
    new = func_body(src, "parser_new")
    for fld in ("depth", "inner_text_size", "inner_text_used"):
        v["parser_new_" + fld] = T.c_int(one(r"parser\s*->\s*" + fld + r"\s*=\s*(-?\w+)\s*;", new,
                                              "parser_new: parser->%s = N" % fld))
    ch = func_body(src, "_characters")
    v["chars_min_depth"] = T.c_int(one(r"if\s*\(\s*parser\s*->\s*depth\s*<\s*(\w+)\s*\)\s*return\s*;", ch,
                                       "_characters: if (parser->depth < N) return;"))
    return v


def generate():
    v = values()
    out = T.HEADER % "src/parser_expat.c"
    out += "(* separator handed to XML_ParserCreate_MM: expat reports names as URI SEP local *)\n"
    out += "Definition namespace_sep : Z := %d.\n\n" % v["namespace_sep"]
    out += "(* INNER_TEXT_PADDING *)\nDefinition inner_text_padding : Z := %d.\n\n" % v["inner_text_padding"]
    out += "(* initial field values stored by parser_new *)\n"
    for fld in ("depth", "inner_text_size", "inner_text_used"):
        out += "Definition parser_new_%s : Z := %d.\n" % (fld, v["parser_new_" + fld])
    out += "\n(* _characters ignores character data while depth < this *)\n"
    out += "Definition chars_min_depth : Z := %d.\n" % v["chars_min_depth"]
    return out
