"""DNS decoder constants, field offsets and guard comparisons of src/resolver.c -> coq/Gen/Gen_resolver.v

What is re-extracted on every run (ResolverModel.v is defined over all of it, Gen_resolver_ok in
ResolverProofs.v re-checks it against DnsSpec.v):
  * MESSAGE_HEADER_LEN / MESSAGE_RESPONSE / MESSAGE_T_SRV / MESSAGE_C_IN, MAX_DOMAIN_LEN (common.h),
    the numeric values of XMPP_DOMAIN_NOT_FOUND / XMPP_DOMAIN_FOUND (resolver.h enum order);
  * header field offsets (octet2, octet3, qdcount, ancount), the QR shift/mask and the RCODE mask;
  * the offsets inside a resource record (type, class, rdlength, fixed length), inside the SRV rdata
    (priority, weight, port, target), the 4 octets skipped after a question name;
  * the label-type masks (0xc0, 0x3f, shift 8);
  * the list of BUF_OVERFLOW_CHECK(j + k, len) offsets k in textual order, and the comparison of the
    macro itself;
  * the comparison operator of the "prevent infinite looping" pointer guard;
  * the three comparison operators of the swap condition of resolver_srv_list_sort;
  * the remaining guards of message_name_get / message_name_append_safe: `i >= buf_len` (both uses),
    `i + label_len - 1 >= buf_len`, the "name buffer is full" test `name_len >= name_max && name_max > 0`,
    the room computation `name_max > name_len ? name_max - name_len : 0` (every use), `copy_len > 0`,
    the terminator guard `name_max > 0` and the `name_len > 0` guard of the trailing-dot repair.
"""
import re

import translate as T

OPS = {">=": "(%s >=? %s)", ">": "(%s >? %s)", "<=": "(%s <=? %s)", "<": "(%s <? %s)",
       "==": "(%s =? %s)", "!=": "negb (%s =? %s)"}


def func_body(src, name):
    """text of the definition of function `name` (from its header to the matching brace)"""
    for m in re.finditer(r"\b" + re.escape(name) + r"\s*\(", src):
        # find the parameter list's closing parenthesis, then expect '{'
        i = m.end()
        depth = 1
        while i < len(src) and depth:
            depth += {"(": 1, ")": -1}.get(src[i], 0)
            i += 1
        j = i
        while j < len(src) and src[j].isspace():
            j += 1
        if j < len(src) and src[j] == "{":
            depth = 1
            k = j + 1
            while k < len(src) and depth:
                depth += {"{": 1, "}": -1}.get(src[k], 0)
                k += 1
            return src[j:k]
    raise T.TranslateError("function %s not found" % name)


def need(pat, text, what):
    m = re.search(pat, text, re.S)
    if not m:
        raise T.TranslateError("%s not found" % what)
    return m


def off(tok):
    """'j' -> 0, 'j + 6' -> 6"""
    tok = tok.strip()
    m = re.fullmatch(r"j(?:\s*\+\s*(\w+))?", tok)
    if not m:
        raise T.TranslateError("unexpected index expression %r" % tok)
    return T.c_int(m.group(1)) if m.group(1) else 0


def generate():
    src = T.strip_comments(T.read_src("src/resolver.c"))
    common = T.strip_comments(T.read_src("src/common.h"))
    hdr = T.strip_comments(T.read_src("src/resolver.h"))
    d = {}
    for name in ("MESSAGE_HEADER_LEN", "MESSAGE_RESPONSE", "MESSAGE_T_SRV", "MESSAGE_C_IN"):
        d[name] = T.c_int(T.find_define(src, name))
    d["MAX_DOMAIN_LEN"] = T.c_int(T.find_define(common, "MAX_DOMAIN_LEN"))
    need(r"char\s+target\s*\[\s*MAX_DOMAIN_LEN\s*\]", hdr, "target[MAX_DOMAIN_LEN] in resolver_srv_rr_t")
    en = need(r"typedef\s+enum\s*\{([^}]*)\}\s*xmpp_domain_state_t", hdr, "xmpp_domain_state_t")
    names = [x.strip() for x in en.group(1).split(",") if x.strip()]
    if any("=" in x for x in names):
        raise T.TranslateError("explicit enum values in xmpp_domain_state_t")
    d["XMPP_DOMAIN_NOT_FOUND"] = names.index("XMPP_DOMAIN_NOT_FOUND")
    d["XMPP_DOMAIN_FOUND"] = names.index("XMPP_DOMAIN_FOUND")

    raw = func_body(src, "resolver_raw_srv_lookup_buf")
    for f, key in (("octet2", "hdr_octet2_off"), ("octet3", "hdr_octet3_off")):
        d[key] = T.c_int(need(r"header\.%s\s*=\s*buf\[(\w+)\]" % f, raw, "header." + f).group(1))
    for f, key in (("qdcount", "hdr_qdcount_off"), ("ancount", "hdr_ancount_off")):
        d[key] = T.c_int(need(r"header\.%s\s*=\s*xmpp_ntohs_ptr\(&buf\[(\w+)\]\)" % f, raw, "header." + f).group(1))
    m = need(r"return\s*\(\s*header->octet2\s*>>\s*(\w+)\s*\)\s*&\s*(\w+)\s*;", src, "message_header_qr")
    d["qr_shift"], d["qr_mask"] = T.c_int(m.group(1)), T.c_int(m.group(2))
    d["rcode_mask"] = T.c_int(need(r"return\s*header->octet3\s*&\s*(\w+)\s*;", src, "message_header_rcode").group(1))
    need(r"message_header_qr\(&header\)\s*!=\s*MESSAGE_RESPONSE\s*\|\|\s*message_header_rcode\(&header\)\s*!=\s*0", raw,
         "QR/RCODE test")
    d["q_tail"] = T.c_int(need(r"j\s*\+=\s*name_len\s*\+\s*(\w+)\s*;", raw, "question skip").group(1))
    d["rr_type_off"] = off(need(r"\btype\s*=\s*xmpp_ntohs_ptr\(&buf\[([^\]]+)\]\)", raw, "type").group(1))
    d["rr_class_off"] = off(need(r"\bclass\s*=\s*xmpp_ntohs_ptr\(&buf\[([^\]]+)\]\)", raw, "class").group(1))
    d["rr_rdlength_off"] = off(need(r"\brdlength\s*=\s*xmpp_ntohs_ptr\(&buf\[([^\]]+)\]\)", raw, "rdlength").group(1))
    d["rr_fixed_len"] = T.c_int(need(r"rdlength\s*=[^;]*;\s*j\s*\+=\s*(\w+)\s*;", raw, "j += 10").group(1))
    d["srv_prio_off"] = off(need(r"rr->priority\s*=\s*xmpp_ntohs_ptr\(&buf\[([^\]]+)\]\)", raw, "priority").group(1))
    d["srv_weight_off"] = off(need(r"rr->weight\s*=\s*xmpp_ntohs_ptr\(&buf\[([^\]]+)\]\)", raw, "weight").group(1))
    d["srv_port_off"] = off(need(r"rr->port\s*=\s*xmpp_ntohs_ptr\(&buf\[([^\]]+)\]\)", raw, "port").group(1))
    d["srv_target_off"] = off(need(r"message_name_get\(\s*buf\s*,\s*len\s*,([^,]+),\s*rr->target\s*,\s*sizeof\(rr->target\)\s*\)",
                                   raw, "message_name_get(..., rr->target, sizeof(rr->target))").group(1))
    checks = [off(x) for x in re.findall(r"BUF_OVERFLOW_CHECK\(([^,]+),\s*len\s*\)", raw)]
    mac = need(r"#\s*define\s+BUF_OVERFLOW_CHECK\(ptr,\s*len\)\s*\\\s*do\s*\{\s*\\\s*if\s*\(\(ptr\)\s*(\S+)\s*\(len\)\)", src,
               "BUF_OVERFLOW_CHECK macro")
    get = func_body(src, "message_name_get")
    masks = [T.c_int(x) for x in re.findall(r"\(label_len\s*&\s*(\w+)\)\s*==", get)]
    tags = [T.c_int(x) for x in re.findall(r"\(label_len\s*&\s*\w+\)\s*==\s*(\w+)", get)]
    if len(masks) != 2 or masks[0] != masks[1]:
        raise T.TranslateError("label type masks: %r" % masks)
    d["label_mask"], d["label_tag"], d["pointer_tag"] = masks[0], tags[0], tags[1]
    m = need(r"pointer\s*=\s*\(label_len\s*&\s*(\w+)\)\s*<<\s*(\w+)\s*\|\s*buf\[i\+\+\]", get, "pointer assembly")
    d["pointer_mask"], d["pointer_shift"] = T.c_int(m.group(1)), T.c_int(m.group(2))
    pg = need(r"if\s*\(\s*pointer\s*(\S+)\s*buf_offset\s*\)\s*return\s+0\s*;", get, "pointer guard")
    srt = func_body(src, "resolver_srv_list_sort")
    sw = need(r"if\s*\(\s*\(\s*rr_current->priority\s*(\S+)\s*rr_next->priority\s*\)\s*\|\|\s*"
              r"\(\s*rr_current->priority\s*(\S+)\s*rr_next->priority\s*&&\s*"
              r"rr_current->weight\s*(\S+)\s*rr_next->weight\s*\)\s*\)", srt, "swap condition")
    # the other guards of message_name_get / message_name_append_safe
    idx = re.findall(r"if\s*\(\s*i\s*(\S+)\s*buf_len\s*\)\s*return\s+0\s*;", get)
    if len(idx) != 2 or idx[0] != idx[1]:
        raise T.TranslateError("`if (i >= buf_len) return 0;` guards: %r" % idx)
    le = need(r"if\s*\(\s*i\s*\+\s*label_len\s*-\s*(\w+)\s*(\S+)\s*buf_len\s*\)\s*return\s+0\s*;", get, "label end guard")
    full = need(r"if\s*\(\s*name\s*!=\s*NULL\s*&&\s*name_len\s*(\S+)\s*name_max\s*&&\s*name_max\s*(\S+)\s*0\s*\)\s*\{",
                get, "name buffer full test")
    app = func_body(src, "message_name_append_safe")
    rooms = re.findall(r"name_max\s*(\S+)\s*name_len\s*\?\s*name_max\s*-\s*name_len\s*:\s*0", app + get)
    if len(rooms) != 2 or rooms[0] != rooms[1]:
        raise T.TranslateError("room computations `name_max > name_len ? name_max - name_len : 0`: %r" % rooms)
    need(r"copy_len\s*=\s*xmpp_min\(\s*tail_len\s*,\s*copy_len\s*\)\s*;", app, "copy_len = xmpp_min(tail_len, copy_len)")
    cg = need(r"if\s*\(\s*copy_len\s*(\S+)\s*0\s*\)", app, "copy_len guard")
    tg = need(r"if\s*\(\s*name\s*!=\s*NULL\s*&&\s*name_max\s*(\S+)\s*0\s*\)\s*\{", get, "terminator guard")
    need(r"name\[\s*xmpp_min\(\s*name_len\s*,\s*name_max\s*\)\s*-\s*1\s*\]\s*=\s*'\\0'\s*;", get, "terminator position")
    need(r"name\[\s*name_max\s*-\s*1\s*\]\s*=\s*'\\0'\s*;\s*name\s*=\s*NULL\s*;\s*name_max\s*=\s*0\s*;", get, "full-buffer retirement")
    fx = need(r"if\s*\(\s*name\s*!=\s*NULL\s*&&\s*name_len\s*(\S+)\s*0\s*&&\s*name\[name_len\]\s*==\s*'\\0'\s*\)\s*"
              r"name\[\s*name_len\s*-\s*1\s*\]\s*=\s*'\\0'\s*;", get, "trailing-dot repair")
    for o in (mac.group(1), pg.group(1)) + sw.groups() + (idx[0], le.group(2), rooms[0], cg.group(1), tg.group(1), fx.group(1)) + full.groups():
        if o not in OPS:
            raise T.TranslateError("unexpected comparison operator %r" % o)

    out = T.HEADER % "src/resolver.c, src/resolver.h, src/common.h"
    for k in ("MESSAGE_HEADER_LEN", "MESSAGE_RESPONSE", "MESSAGE_T_SRV", "MESSAGE_C_IN", "MAX_DOMAIN_LEN",
              "XMPP_DOMAIN_NOT_FOUND", "XMPP_DOMAIN_FOUND", "hdr_octet2_off", "hdr_octet3_off", "hdr_qdcount_off",
              "hdr_ancount_off", "qr_shift", "qr_mask", "rcode_mask", "q_tail", "rr_type_off", "rr_class_off",
              "rr_rdlength_off", "rr_fixed_len", "srv_prio_off", "srv_weight_off", "srv_port_off", "srv_target_off",
              "label_mask", "label_tag", "pointer_tag", "pointer_mask", "pointer_shift"):
        out += "Definition %s : Z := %d.\n" % (k, d[k])
    out += "\n(* offsets k of the BUF_OVERFLOW_CHECK(j + k, len) uses in resolver_raw_srv_lookup_buf, textual order *)\n"
    out += "Definition ovf_check_offsets : list Z := [%s].\n" % "; ".join(str(c) for c in checks)
    out += "\n(* BUF_OVERFLOW_CHECK(ptr, len): `if ((ptr) %s (len))` -> bail out *)\n" % mac.group(1)
    out += "Definition ovf_check (ptr len : Z) : bool := %s.\n" % (OPS[mac.group(1)] % ("ptr", "len"))
    out += "\n(* message_name_get: `if (pointer %s buf_offset) return 0;` *)\n" % pg.group(1)
    out += "Definition pointer_guard (pointer buf_offset : Z) : bool := %s.\n" % (OPS[pg.group(1)] % ("pointer", "buf_offset"))
    out += "\n(* resolver_srv_list_sort: swap condition on (current, next) *)\n"
    out += ("Definition srv_swap (cp cw np nw : Z) : bool :=\n  %s || (%s && %s).\n"
            % (OPS[sw.group(1)] % ("cp", "np"), OPS[sw.group(2)] % ("cp", "np"), OPS[sw.group(3)] % ("cw", "nw")))
    out += "\n(* message_name_get: `if (i %s buf_len) return 0;` (before the length octet and before the pointer's second octet) *)\n" % idx[0]
    out += "Definition idx_guard (i buf_len : Z) : bool := %s.\n" % (OPS[idx[0]] % ("i", "buf_len"))
    out += "\n(* message_name_get: `if (i + label_len - %s %s buf_len) return 0;` *)\n" % (le.group(1), le.group(2))
    out += "Definition label_end_adjust : Z := %d.\n" % T.c_int(le.group(1))
    out += "Definition label_end_guard (last buf_len : Z) : bool := %s.\n" % (OPS[le.group(2)] % ("last", "buf_len"))
    out += "\n(* message_name_get: `name_len %s name_max && name_max %s 0`: the name buffer is full, do not pass it on *)\n" % full.groups()
    out += "Definition name_full (name_len name_max : Z) : bool := %s && %s.\n" % (
        OPS[full.group(1)] % ("name_len", "name_max"), OPS[full.group(2)] % ("name_max", "0"))
    out += "\n(* `name_max %s name_len ? name_max - name_len : 0` (message_name_append_safe and the recursive call) *)\n" % rooms[0]
    out += "Definition room_left (name_max name_len : Z) : Z := if %s then name_max - name_len else 0.\n" % (
        OPS[rooms[0]] % ("name_max", "name_len"))
    out += "\n(* message_name_append_safe: `if (copy_len %s 0) memcpy(...)` *)\n" % cg.group(1)
    out += "Definition copy_guard (copy_len : Z) : bool := %s.\n" % (OPS[cg.group(1)] % ("copy_len", "0"))
    out += "\n(* message_name_get: `if (name != NULL && name_max %s 0)` before the final terminator *)\n" % tg.group(1)
    out += "Definition term_guard (name_max : Z) : bool := %s.\n" % (OPS[tg.group(1)] % ("name_max", "0"))
    out += "\n(* message_name_get: `name_len %s 0 && name[name_len] == 0` before the trailing-dot repair *)\n" % fx.group(1)
    out += "Definition fixup_guard (name_len : Z) : bool := %s.\n" % (OPS[fx.group(1)] % ("name_len", "0"))
    return out
