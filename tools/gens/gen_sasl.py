"""SASL message-assembly constants -> coq/Gen/Gen_sasl.v

Re-extracted on every run (comments / whitespace are invisible) from
  src/auth.c   _make_scram_init_msg : nonce buffer length, size of `buf`, the length arithmetic of
                                      `message_len`, both client-first formats and their argument order,
                                      the characters of the non-PLUS gs2 flag
               _handle_component_auth: order of the two SHA-1 updates, the hex format
               _auth_legacy          : order of the three children and where their text comes from
  src/sasl.c   sasl_scram           : delimiter and the three attribute prefixes, length arithmetic of the
                                      response / auth buffers, the two formats, the ",p=" suffix,
                                      the overflow test, strtol base, the salt / iteration refusals
               sasl_digest_md5      : size of cnonce, literal strings, the four MD5 computations as
                                      piece lists (in call order), the reply's field order and quoting
  src/scram.c  "Client Key", INT(1), size of Hi's tmp buffer
  src/scram.h  SCRAM_SALT_MAX_LEN
A format string is a list of Z: a byte is itself, the k-th conversion is -k.
An MD5 piece is (tag, bytes): 0 literal bytes, 1 C variable (0 node, 1 realm, 2 password, 3 digest[16],
4 hex(HA1), 5 hex(HA2)), 2 value of the challenge-table key named by bytes.
Anything not found in the expected shape raises TranslateError (reported as a broken obligation).
"""
import re

import translate as T


def _need(m, what):
    if not m:
        raise T.TranslateError(what + " not found")
    return m


_ESC = {"n": 10, "t": 9, "r": 13, "0": 0, "\\": 92, "'": 39, '"': 34}


def cbytes(body):
    out = []
    i = 0
    while i < len(body):
        c = body[i]
        if c == "\\":
            i += 1
            out.append(_ESC[body[i]])
        else:
            out.append(ord(c))
        i += 1
    return out


def fmt_list(body):
    """printf format -> list of ints (bytes; -k for the k-th conversion). Only %s %c %02x-free formats."""
    out = []
    k = 0
    i = 0
    raw = body
    while i < len(raw):
        if raw[i] == "%":
            if raw[i + 1] not in "sc":
                raise T.TranslateError("unsupported conversion in %r" % body)
            k += 1
            out.append(-k)
            i += 2
        elif raw[i] == "\\":
            out.append(_ESC[raw[i + 1]])
            i += 2
        else:
            out.append(ord(raw[i]))
            i += 1
    return out


def func_body(src, name):
    m = re.search(r"\b" + re.escape(name) + r"\s*\([^;{]*\)\s*\{", src)
    if not m:
        raise T.TranslateError("function %s not found" % name)
    depth = 1
    i = m.end()
    while i < len(src) and depth:
        depth += {"{": 1, "}": -1}.get(src[i], 0)
        i += 1
    return src[m.end():i]


def join_literals(s):
    """adjacent C string literals "a" "b" -> "ab" """
    return re.sub(r'"\s*\n?\s*"', "", s)


def zl(vals):
    return "[" + "; ".join(str(v) if v >= 0 else "(%d)" % v for v in vals) + "]"


def zdef(name, v):
    return "Definition %s : Z := %d.\n" % (name, v)


def ldef(name, vals):
    return "Definition %s : list Z := %s.\n" % (name, zl(vals))


def gen_scram_init(auth):
    f = join_literals(func_body(auth, "_make_scram_init_msg"))
    out = "(* ---- _make_scram_init_msg (src/auth.c) ---- *)\n"
    out += zdef("scram_buf_size", int(_need(re.search(r"char\s+buf\s*\[\s*(\d+)\s*\]", f), "buf[]").group(1)))
    out += zdef("scram_nonce_len", int(_need(re.search(r"xmpp_rand_nonce\s*\(\s*ctx->rand\s*,\s*buf\s*,\s*(\d+)\s*\)", f), "nonce length").group(1)))
    m = _need(re.search(r"message_len\s*=\s*strlen\(node\)\s*\+\s*strlen\(buf\)\s*\+\s*(\d+)\s*\+\s*binding_type_len\s*\+\s*(\d+)\s*;", f), "message_len")
    out += ldef("scram_msg_len_consts", [int(m.group(1)), int(m.group(2))])
    incs = re.findall(r"binding_type_len\s*\+=\s*(\d+)\s*;", f)
    if len(incs) != 2:
        raise T.TranslateError("binding_type_len increments: %r" % incs)
    out += ldef("scram_btl_incr", [int(x) for x in incs])
    m = _need(re.search(r'if\s*\(scram->sasl_plus\)\s*\{\s*l\s*=\s*strophe_snprintf\(\s*message\s*,\s*message_len\s*,\s*"([^"]*)"\s*,\s*binding_type\s*,\s*node\s*,\s*buf\s*\)\s*;\s*\}\s*else\s*\{\s*l\s*=\s*strophe_snprintf\(\s*message\s*,\s*message_len\s*,\s*"([^"]*)"\s*,\s*is_secured\s*\?\s*\'(.)\'\s*:\s*\'(.)\'\s*,\s*node\s*,\s*buf\s*\)', f), "client-first formats")
    out += ldef("scram_fmt_plus", fmt_list(m.group(1)))
    out += ldef("scram_fmt_noplus", fmt_list(m.group(2)))
    out += zdef("scram_flag_secured", ord(m.group(3)))
    out += zdef("scram_flag_unsecured", ord(m.group(4)))
    _need(re.search(r"if\s*\(\s*binding_type_len\s*>\s*sizeof\(buf\)\s*\)", f), "header bound")
    _need(re.search(r"if\s*\(\s*binding_data_len\s*>\s*sizeof\(buf\)\s*-\s*binding_type_len\s*\)", f), "cb data bound")
    _need(re.search(r"scram->first_bare\s*=\s*message\s*\+\s*binding_type_len\s*;", f), "first_bare")
    # RFC 5802 saslname escaping of the node: pairs (character, replacement); empty = the node is copied as is
    pairs = []
    if re.search(r"node\s*=\s*_scram_escape_username\(ctx,\s*jid_node\)", f):
        e = func_body(auth, "_scram_escape_username")
        pairs = re.findall(r"\(\*c\s*==\s*'(.)'\)\s*\{\s*memcpy\(p,\s*\"([^\"]*)\",\s*(\d+)\);\s*p\s*\+=\s*(\d+);", e)
        if not pairs or any(int(a) != len(r) or a != b for _, r, a, b in pairs):
            raise T.TranslateError("escape table of _scram_escape_username: %r" % pairs)
        cnt = _need(re.search(r"len\s*\+=\s*\(([^?]*)\)\s*\?\s*(\d+)\s*:\s*(\d+)\s*;", e), "escape length pass")
        counted = sorted(re.findall(r"\*c\s*==\s*'(.)'", cnt.group(1)))
        if counted != sorted(c for c, _, _, _ in pairs) or cnt.group(3) != "1" or any(int(cnt.group(2)) != len(r) for _, r, _, _ in pairs):
            raise T.TranslateError("escape length pass disagrees with the copy pass")
    elif not re.search(r"node\s*=\s*xmpp_jid_node\(ctx,\s*conn->jid\)", f):
        raise T.TranslateError("origin of node")
    out += "Definition scram_user_escape : list (Z * list Z) := [%s].\n" % "; ".join(
        "(%d, %s)" % (ord(c), zl(cbytes(r))) for c, r, _, _ in pairs)
    return out


def gen_sasl_scram(sasl, scram_c, scram_h):
    f = join_literals(func_body(sasl, "sasl_scram"))
    out = "(* ---- sasl_scram (src/sasl.c), SCRAM helpers (src/scram.c, scram.h) ---- *)\n"
    delims = re.findall(r'strtok_r\(\s*(?:tmp|NULL)\s*,\s*"([^"]*)"', f)
    if len(delims) != 2 or delims[0] != delims[1]:
        raise T.TranslateError("strtok_r delimiters: %r" % delims)
    out += ldef("scram_delims", cbytes(delims[0]))
    m = _need(re.search(r'strncmp\(ptr,\s*"([^"]*)",\s*(\d+)\)\s*==\s*0\)\s*\{\s*r\s*=\s*ptr\s*;\s*\}\s*else\s+if\s*\(strncmp\(ptr,\s*"([^"]*)",\s*(\d+)\)\s*==\s*0\)\s*\{\s*s\s*=\s*ptr\s*\+\s*(\d+)\s*;\s*\}\s*else\s+if\s*\(strncmp\(ptr,\s*"([^"]*)",\s*(\d+)\)\s*==\s*0\)\s*\{\s*i\s*=\s*ptr\s*\+\s*(\d+)\s*;', f), "attribute pick-up")
    for nm, lit, n in (("r", m.group(1), m.group(2)), ("s", m.group(3), m.group(4)), ("i", m.group(6), m.group(7))):
        if int(n) != len(cbytes(lit)):
            raise T.TranslateError("strncmp length of %s" % nm)
    out += ldef("scram_pfx_r", cbytes(m.group(1)))
    out += ldef("scram_pfx_s", cbytes(m.group(3)))
    out += ldef("scram_pfx_i", cbytes(m.group(6)))
    out += ldef("scram_skip_si", [int(m.group(5)), int(m.group(8))])
    _need(re.search(r"if\s*\(\s*sval_len\s*>\s*SCRAM_SALT_MAX_LEN\s*\)", f), "salt bound")
    out += zdef("scram_salt_max", int(T.find_define(scram_h, "SCRAM_SALT_MAX_LEN")))
    m = _need(re.search(r"ival\s*=\s*strtol\(\s*i\s*,\s*&saveptr\s*,\s*(\d+)\s*\)\s*;\s*if\s*\(\s*ival\s*(<=|<)\s*(\d+)\s*(?:\|\|\s*ival\s*>\s*(\w+)\s*)?\)", f), "iteration count")
    out += zdef("scram_strtol_base", int(m.group(1)))
    # smallest accepted iteration count
    out += zdef("scram_iter_min", int(m.group(3)) + (1 if m.group(2) == "<=" else 0))
    # largest accepted one: the C type of the count handed to SCRAM_ClientKey is uint32_t; an explicit
    # upper bound in the test is recorded, otherwise 0 = "no test" (the cast truncates)
    ub = m.group(4)
    ubv = {"UINT32_MAX": 2 ** 32 - 1, "0xffffffff": 2 ** 32 - 1, "0xFFFFFFFF": 2 ** 32 - 1}.get(ub, 0) if ub else 0
    if ub and not ubv:
        raise T.TranslateError("iteration upper bound %r" % ub)
    out += zdef("scram_iter_max", ubv)
    m = _need(re.search(r"response_len\s*=\s*(\d+)\s*\+\s*strlen\(channel_binding\)\s*\+\s*strlen\(r\)\s*\+\s*(\d+)\s*\+\s*\(\(alg->digest_size\s*\+\s*(\d+)\)\s*/\s*(\d+)\s*\*\s*(\d+)\)\s*\+\s*(\d+)\s*;", f), "response_len")
    out += ldef("scram_resp_len_consts", [int(g) for g in m.groups()])
    m = _need(re.search(r"auth_len\s*=\s*(\d+)\s*\+\s*response_len\s*\+\s*strlen\(first_bare\)\s*\+\s*strlen\(challenge\)\s*;", f), "auth_len")
    out += zdef("scram_auth_len_const", int(m.group(1)))
    m = _need(re.search(r'strophe_snprintf\(response,\s*response_len,\s*"([^"]*)",\s*channel_binding,\s*r\)', f), "response format")
    out += ldef("scram_fmt_response", fmt_list(m.group(1)))
    m = _need(re.search(r'strophe_snprintf\(auth,\s*auth_len,\s*"([^"]*)",\s*first_bare,\s*challenge,\s*response\)', f), "auth format")
    out += ldef("scram_fmt_auth", fmt_list(m.group(1)))
    m = _need(re.search(r"strlen\(response\)\s*\+\s*strlen\(sign_b64\)\s*\+\s*(\d+)\s*\+\s*(\d+)\s*>\s*response_len", f), "overflow test")
    out += ldef("scram_ovf_consts", [int(m.group(1)), int(m.group(2))])
    m = _need(re.search(r'strcat\(response,\s*"([^"]*)"\);\s*strcat\(response,\s*sign_b64\);', f), "proof suffix")
    out += ldef("scram_proof_pfx", cbytes(m.group(1)))
    ck = func_body(scram_c, "SCRAM_ClientKey")
    m = _need(re.search(r'crypto_HMAC\(alg,\s*salted,\s*alg->digest_size,\s*\(uint8_t\s*\*\)\s*"([^"]*)",\s*strlen\("([^"]*)"\),\s*key\)', ck), "Client Key")
    if m.group(1) != m.group(2):
        raise T.TranslateError("Client Key literal and its strlen differ")
    out += ldef("scram_client_key_label", cbytes(m.group(1)))
    hi = func_body(scram_c, "SCRAM_Hi")
    m = _need(re.search(r"uint8_t\s+tmp\s*\[\s*SCRAM_SALT_MAX_LEN\s*\+\s*(\d+)\s*\]", hi), "Hi tmp")
    out += zdef("scram_hi_tmp_extra", int(m.group(1)))
    m = _need(re.search(r"int1\s*\[\s*\]\s*=\s*\{([^}]*)\}", hi), "INT(1)")
    out += ldef("scram_int1", [T.c_int(t) for t in m.group(1).split(",") if t.strip()])
    return out


def gen_digest(sasl):
    f = join_literals(func_body(sasl, "sasl_digest_md5"))
    out = "(* ---- sasl_digest_md5 (src/sasl.c) ---- *)\n"
    out += zdef("digest_cnonce_size", int(_need(re.search(r"char\s+cnonce\s*\[\s*(\d+)\s*\]", f), "cnonce[]").group(1)))
    out += ldef("digest_nc", cbytes(_need(re.search(r'hash_add\(table,\s*"nc",\s*strophe_strdup\(ctx,\s*"([^"]*)"\)\)', f), "nc").group(1)))
    m = _need(re.search(r'if\s*\(hash_get\(table,\s*"qop"\)\s*==\s*NULL\s*(\|\|\s*_qop_offers_auth\(hash_get\(table,\s*"qop"\)\)\s*)?\)\s*hash_add\(table,\s*"qop",\s*strophe_strdup\(ctx,\s*"([^"]*)"\)\)', f), "default qop")
    out += ldef("digest_default_qop", cbytes(m.group(2)))
    # selection of one alternative out of the server's qop-options: the token looked for and the separators
    if m.group(1):
        q = func_body(sasl, "_qop_offers_auth")
        skip = re.findall(r"\*qop\s*==\s*'(.)'", _need(re.search(r"while\s*\(((?:\s*\(\*qop\s*==\s*'.'\)\s*\|\|)*\s*\(\*qop\s*==\s*'.'\))\s*\)\s*qop\+\+;", q), "qop skip loop").group(1))
        sp = _need(re.search(r'n\s*=\s*strcspn\(qop,\s*"([^"]*)"\)', q), "qop strcspn").group(1)
        t = _need(re.search(r'if\s*\(n\s*==\s*(\d+)\s*&&\s*strncmp\(qop,\s*"([^"]*)",\s*(\d+)\)\s*==\s*0\)\s*return\s+1;', q), "qop token test")
        if sorted(skip) != sorted(sp) or int(t.group(1)) != len(t.group(2)) or t.group(1) != t.group(3):
            raise T.TranslateError("_qop_offers_auth shape")
        out += ldef("digest_qop_seps", cbytes(sp))
        out += ldef("digest_qop_token", cbytes(t.group(2)))
    else:
        out += ldef("digest_qop_seps", [])
        out += ldef("digest_qop_token", [])
    m = _need(re.search(r'memcpy\(value,\s*"([^"]*)",\s*(\d+)\);\s*memcpy\(value\s*\+\s*(\d+),\s*domain,\s*strlen\(domain\)\)', f), "digest-uri")
    if int(m.group(2)) != len(cbytes(m.group(1))) or m.group(2) != m.group(3):
        raise T.TranslateError("digest-uri prefix length")
    out += ldef("digest_uri_prefix", cbytes(m.group(1)))
    out += ldef("digest_qop_plain", cbytes(_need(re.search(r'if\s*\(strcmp\(hash_get\(table,\s*"qop"\),\s*"([^"]*)"\)\s*!=\s*0\)', f), "qop test").group(1)))
    # the MD5 computations as piece lists, in the order of the calls
    varidx = {"node": 0, "realm": 1, "password": 2, "digest": 3}
    comps = []
    cur = None
    value_key = None
    hexsrc = None
    tok = re.compile(r'MD5Init\(&MD5\)|MD5Final\(digest,\s*&MD5\)|value\s*=\s*hash_get\(table,\s*"([^"]*)"\)|'
                     r'_digest_to_hex\(\(char\s*\*\)(\w+),\s*hex\)|'
                     r'MD5Update\(&MD5,\s*(?:\(unsigned char\s*\*\))?\s*("([^"]*)"|\w+)\s*,\s*([^;]*)\)\s*;|'
                     r'if\s*\(strcmp\(hash_get\(table,\s*"qop"\)')
    cond = False
    for m in tok.finditer(f):
        t = m.group(0)
        if t.startswith("MD5Init"):
            cur = []
        elif t.startswith("MD5Final"):
            comps.append(cur)
            cur = None
        elif t.startswith("value"):
            value_key = m.group(1)
        elif t.startswith("_digest_to_hex"):
            hexsrc = m.group(2)
        elif t.startswith("if"):
            cond = True
        elif t.startswith("MD5Update"):
            arg = m.group(3)
            if arg.startswith('"'):
                lit = cbytes(m.group(4))
                n = m.group(5).strip()
                if int(n) != len(lit):
                    raise T.TranslateError("MD5Update literal length %r" % t)
                piece = (0, lit)
            elif arg == "value":
                piece = (2, cbytes(value_key))
            elif arg == "hex":
                piece = (1, [{"HA1": 4, "HA2": 5}[hexsrc]])
            elif arg in varidx:
                piece = (1, [varidx[arg]])
            else:
                raise T.TranslateError("MD5Update argument %r" % arg)
            if cond:
                # the single conditional update (qop != "auth")
                piece = (piece[0] + 10, piece[1])
                cond = False
            if cur is None:
                raise T.TranslateError("MD5Update outside Init/Final")
            cur.append(piece)
    if len(comps) != 4:
        raise T.TranslateError("expected 4 MD5 computations, found %d" % len(comps))
    out += "(* MD5 inputs in call order: first field of A1; A1; A2; response.  tag+10 = only when qop <> digest_qop_plain *)\n"
    out += "Definition digest_md5_pieces : list (list (Z * list Z)) := [\n%s\n].\n" % ";\n".join(
        "  [" + "; ".join("(%d, %s)" % (tg, zl(bs)) for tg, bs in c) + "]" for c in comps)
    m = _need(re.search(r"memcpy\(HA1,\s*digest,\s*16\)", f), "HA1 copy")
    m = _need(re.search(r"memcpy\(HA2,\s*digest,\s*16\)", f), "HA2 copy")
    keys = re.findall(r'result\s*=\s*_add_key\(ctx,\s*table,\s*"([^"]*)",\s*result,\s*(\d)\)', f)
    if not keys:
        raise T.TranslateError("reply fields not found")
    out += "(* reply fields in order, 1 = quoted *)\n"
    out += "Definition digest_reply_fields : list (list Z * Z) := [\n%s\n].\n" % ";\n".join(
        "  (%s, %s)" % (zl(cbytes(k)), q) for k, q in keys)
    # response-side table insertions that precede the computation (order matters for duplicates only)
    hx = func_body(sasl, "_digest_to_hex")
    out += ldef("digest_hexdigits", cbytes(_need(re.search(r'hexdigit\[\]\s*=\s*"([^"]*)"', hx), "hexdigit").group(1)))
    return out


def gen_component(auth):
    f = func_body(auth, "_handle_component_auth")
    ups = re.findall(r"crypto_SHA1_Update\(&mdctx,\s*\(uint8_t\s*\*\)conn->(\w+)\s*,\s*strlen\(conn->(\w+)\)\)", f)
    if len(ups) != 2 or any(a != b for a, b in ups):
        raise T.TranslateError("component SHA1 updates: %r" % ups)
    idx = {"stream_id": 0, "pass": 1}
    out = "(* ---- _handle_component_auth / _auth_legacy (src/auth.c) ---- *)\n"
    out += "(* 0 = stream id, 1 = secret, in update order *)\n"
    out += ldef("component_hash_order", [idx[a] for a, _ in ups])
    fm = _need(re.search(r'strophe_snprintf\(digest\s*\+\s*i\s*\*\s*2,\s*3,\s*"([^"]*)"', f), "handshake hex format").group(1)
    if fm not in ("%02x", "%02X"):
        raise T.TranslateError("hex format %r" % fm)
    out += "Definition component_hex_upper : bool := %s.\n" % ("true" if fm == "%02X" else "false")
    lg = func_body(auth, "_auth_legacy")
    names = re.findall(r'xmpp_stanza_set_name\(child,\s*"([^"]*)"\)', lg)
    out += "Definition legacy_children : list (list Z) := [%s].\n" % "; ".join(zl(cbytes(n)) for n in names)
    # where each child's text comes from, in order of the xmpp_stanza_set_text(authdata, ..) calls
    srcs = []
    for m in re.finditer(r"str\s*=\s*xmpp_jid_(\w+)\(conn->ctx,\s*conn->jid\)|xmpp_stanza_set_text\(authdata,\s*(conn->pass|str)\)", lg):
        if m.group(1):
            last = {"node": 0, "resource": 2}.get(m.group(1))
            if last is None:
                raise T.TranslateError("legacy jid part %s" % m.group(1))
        elif m.group(2) == "conn->pass":
            srcs.append(1)
        else:
            srcs.append(last)
    out += "(* 0 = node of the JID, 1 = password, 2 = resource of the JID *)\n"
    out += ldef("legacy_text_src", srcs)
    return out


def gen_nonce(rand):
    f = func_body(rand, "xmpp_rand_nonce")
    _need(re.search(r"rand_len\s*=\s*len\s*/\s*2\s*;", f), "rand_len")
    h = func_body(rand, "rand_byte2hex")
    m = _need(re.search(r"hex_tbl\[16\]\s*=\s*\{([^}]*)\}", h), "hex_tbl")
    out = "(* ---- xmpp_rand_nonce (src/rand.c) ---- *)\n"
    out += ldef("nonce_hex_tbl", [T.c_int(t) for t in re.findall(r"'(?:\\.|[^'])'", m.group(1))])
    return out


def generate():
    auth = T.strip_comments(T.read_src("src/auth.c"))
    sasl = T.strip_comments(T.read_src("src/sasl.c"))
    scram_c = T.strip_comments(T.read_src("src/scram.c"))
    scram_h = T.strip_comments(T.read_src("src/scram.h"))
    rand = T.strip_comments(T.read_src("src/rand.c"))
    out = T.HEADER % "src/auth.c src/sasl.c src/scram.c src/scram.h src/rand.c"
    out += gen_scram_init(auth) + "\n" + gen_sasl_scram(sasl, scram_c, scram_h) + "\n" + gen_digest(sasl) + "\n"
    out += gen_component(auth) + "\n" + gen_nonce(rand)
    return out
