"""Send-queue constants and the shape of the queue code -> coq/Gen/Gen_sendqueue.v   (property C06)

Re-extracted from /repo on every run (comments and all whitespace are invisible):
  common.h   XMPP_QUEUE_STROPHE / _USER / _SM / _SM_STROPHE owner values
  conn.c     _send_raw: the text of req_ack; the owner adjustment before SM is enabled; the counter statements; the condition and call of the SM piggy-back
             xmpp_conn_send_queue_len: the whole body
             _drop_send_queue_element: the whole body
             xmpp_conn_send_queue_drop_element: the six statements that decide which element is dropped
  event.c    xmpp_run_once: the statements of the write loop (towrite/written/wip/break, counters, move to the SM
             queue, advance of the head including the clearing of the new head's prev)
Each statement is reported as a yes/no fact "the source contains exactly this statement".  SendQueueModel mirrors
the code in which all facts are `true`; Proofs/SendQueueProofs.v Gen_sendqueue_ok re-checks that (so an edit of one
of these statements breaks a proof obligation, independently of the correspondence run).
"""
import re

import translate as T


def func_body(src, name):
    m = re.search(r"\b" + re.escape(name) + r"\s*\([^;{]*\)\s*\{", src)
    if not m:
        raise T.TranslateError("function %s not found" % name)
    depth = 1
    i = m.end()
    while i < len(src) and depth:
        c = src[i]
        if c == '"' or c == "'":
            j = i + 1
            while src[j] != c:
                if src[j] == "\\":
                    j += 1
                j += 1
            i = j + 1
            continue
        if c == "{":
            depth += 1
        elif c == "}":
            depth -= 1
        i += 1
    if depth:
        raise T.TranslateError("unbalanced braces in %s" % name)
    return src[m.end():i - 1]


def squeeze(text):
    """drop whitespace outside string literals; drop debug-log statements"""
    out = []
    i = 0
    while i < len(text):
        c = text[i]
        if c == '"':
            j = i + 1
            while text[j] != '"':
                if text[j] == "\\":
                    j += 1
                j += 1
            out.append(text[i:j + 1])
            i = j + 1
        elif c.isspace():
            i += 1
        else:
            out.append(c)
            i += 1
    s = "".join(out)
    return re.sub(r"strophe_(?:debug|debug_verbose|error)\((?:\"(?:[^\"\\]|\\.)*\"|[^;\"])*\);", "", s)


LEN_BODY = ("if(conn->send_queue_head&&conn->send_queue_head->wip&&conn->send_queue_head->owner==XMPP_QUEUE_USER)"
            "returnconn->send_queue_user_len-1;elsereturnconn->send_queue_user_len;")
UNLINK_BODY = ("if(e==conn->send_queue_head)conn->send_queue_head=e->next;"
               "if(e==conn->send_queue_tail)conn->send_queue_tail=e->prev;"
               "if(!conn->send_queue_head)conn->send_queue_tail=NULL;"
               "if(e->prev)e->prev->next=e->next;"
               "if(e->next)e->next->prev=e->prev;"
               "conn->send_queue_len--;"
               "if(e->owner==XMPP_QUEUE_USER)conn->send_queue_user_len--;"
               "returnqueue_element_free(conn->ctx,e);")

FACTS = [
    # name, function, statement (whitespace-free)
    ("send_lib_before_sm", "_send_raw", "if(owner==XMPP_QUEUE_STROPHE&&!conn->sm_state->sm_enabled)owner=XMPP_QUEUE_SM_STROPHE;"),
    ("send_counts", "_send_raw", "conn->send_queue_len++;if(owner==XMPP_QUEUE_USER)conn->send_queue_user_len++;"),
    ("send_links_tail", "_send_raw",
     "item->next=NULL;item->prev=conn->send_queue_tail;item->written=0;item->wip=0;item->userdata=userdata;item->owner=owner;"),
    ("send_piggyback", "_send_raw",
     "if(!(owner&XMPP_QUEUE_SM)&&conn->sm_state->sm_enabled&&!conn->sm_state->r_sent){conn->sm_state->r_sent=1;"
     "send_raw(conn,req_ack,strlen(req_ack),XMPP_QUEUE_SM_STROPHE,item);}"),
    ("loop_write", "xmpp_run_once",
     "towrite=sq->len-sq->written;ret=conn_interface_write(intf,&sq->data[sq->written],towrite);"),
    ("loop_written_accumulates", "xmpp_run_once", "if(ret>0&&ret<towrite)sq->written+=ret;"),
    ("loop_wip_then_stop", "xmpp_run_once", "sq->wip=1;if(ret!=towrite)break;"),
    ("loop_counts", "xmpp_run_once",
     "tsq=sq;sq=sq->next;conn->send_queue_len--;if(tsq->owner&XMPP_QUEUE_USER)conn->send_queue_user_len--;"),
    ("loop_moves_to_smq", "xmpp_run_once",
     "if(!(tsq->owner&XMPP_QUEUE_SM)&&conn->sm_state->sm_enabled){tsq->sm_h=conn->sm_state->sm_sent_nr;"
     "conn->sm_state->sm_sent_nr++;add_queue_back(&conn->sm_state->sm_queue,tsq);tsq=NULL;}"),
    ("loop_head_prev_cleared", "xmpp_run_once",
     "conn->send_queue_head=sq;if(!sq)conn->send_queue_tail=NULL;elsesq->prev=NULL;"),
    ("drop_single_wip", "xmpp_conn_send_queue_drop_element",
     "if(conn->send_queue_head==conn->send_queue_tail){if(conn->send_queue_head->wip&&!disconnected)returnNULL;"
     "if(conn->send_queue_head->owner!=XMPP_QUEUE_USER)returnNULL;}"),
    ("drop_choice", "xmpp_conn_send_queue_drop_element",
     "if(which==XMPP_QUEUE_OLDEST){t=conn->send_queue_head;}elseif(which==XMPP_QUEUE_YOUNGEST){t=conn->send_queue_tail;"
     "while(t&&t->owner!=XMPP_QUEUE_USER)t=t->prev;}"),
    ("drop_skips_wip_head", "xmpp_conn_send_queue_drop_element",
     "if(t==conn->send_queue_head&&t->wip&&!disconnected)t=t->next;while(t&&t->owner!=XMPP_QUEUE_USER)t=t->next;if(!t)returnNULL;"),
    ("drop_linked_request", "xmpp_conn_send_queue_drop_element",
     "if(t->next&&t->next->userdata==t){strophe_free(conn->ctx,_drop_send_queue_element(conn,t->next));"
     "conn->sm_state->r_sent=0;}char*r=_drop_send_queue_element(conn,t);"),
]


def c_string_bytes(body):
    out = []
    i = 0
    while i < len(body):
        c = body[i]
        if c != "\\":
            out.append(ord(c) & 255)
            i += 1
            continue
        i += 1
        e = body[i]
        out.append({"n": 10, "t": 9, "r": 13, "\\": 92, "'": 39, '"': 34, "0": 0}[e])
        i += 1
    return out


def generate():
    conn = T.strip_comments(T.read_src("src/conn.c"))
    event = T.strip_comments(T.read_src("src/event.c"))
    common = T.strip_comments(T.read_src("src/common.h"))
    bodies = {}
    for fn, src in (("_send_raw", conn), ("xmpp_conn_send_queue_len", conn), ("_drop_send_queue_element", conn),
                    ("xmpp_conn_send_queue_drop_element", conn), ("xmpp_run_once", event)):
        # the definition, not the forward declaration: func_body wants "name(...) {"
        bodies[fn] = squeeze(func_body(src, fn))
    vals = {}
    for name in ("XMPP_QUEUE_STROPHE", "XMPP_QUEUE_USER", "XMPP_QUEUE_SM"):
        m = re.search(r"\b" + name + r"\s*=\s*(0[xX][0-9a-fA-F]+|\d+)", common)
        if not m:
            raise T.TranslateError("%s not found in common.h" % name)
        vals[name] = T.c_int(m.group(1))
    m = re.search(r"\bXMPP_QUEUE_SM_STROPHE\s*=\s*([^,}]*)", common)
    if not m or squeeze(m.group(1)) not in ("XMPP_QUEUE_SM|XMPP_QUEUE_STROPHE", "XMPP_QUEUE_STROPHE|XMPP_QUEUE_SM"):
        raise T.TranslateError("XMPP_QUEUE_SM_STROPHE is not XMPP_QUEUE_SM | XMPP_QUEUE_STROPHE")
    m = re.search(r'req_ack\s*=\s*"((?:[^"\\]|\\.)*)"\s*;', func_body(conn, "_send_raw"))
    if not m:
        raise T.TranslateError("_send_raw: req_ack literal not found")
    req = c_string_bytes(m.group(1))

    out = T.HEADER % "src/common.h, src/conn.c, src/event.c"
    out += "Definition q_strophe : Z := %d.\nDefinition q_user : Z := %d.\nDefinition q_sm : Z := %d.\n" % (
        vals["XMPP_QUEUE_STROPHE"], vals["XMPP_QUEUE_USER"], vals["XMPP_QUEUE_SM"])
    out += "Definition q_sm_strophe : Z := Z.lor q_sm q_strophe.\n\n"
    out += "Definition req_ack_text : list Z := %s.\n\n" % T.zlist(req)
    out += "(* does the source contain exactly the statement the model mirrors? *)\n"
    for name, fn, stmt in FACTS:
        out += "Definition src_%s : bool := %s.\n" % (name, "true" if stmt in bodies[fn] else "false")
    out += "Definition src_len_body : bool := %s.\n" % ("true" if bodies["xmpp_conn_send_queue_len"] == LEN_BODY else "false")
    out += "Definition src_unlink_body : bool := %s.\n" % ("true" if bodies["_drop_send_queue_element"] == UNLINK_BODY else "false")
    return out
