"""SM blob format constants and the shape of the restore code of src/conn.c -> coq/Gen/Gen_smblob.v

Re-extracted on every run (comments / whitespace invisible):
  sm_state_serialize          the tag bytes of its eight sm_store_u32 calls in order, the version prefix it
                              memcpy's, the integer terms of `buf_size = ...` (fixed overhead), of
                              `send_queue_size += N + peek->len` and `sm_queue_size += N + peek->len`
  sm_store_u32                N of `next + N > end`
  sm_load_u32                 N of `(sm->state + N) > sm->state_end`, and whether that test stands before the
                              first `*sm->state` read
  sm_load_string              the tag it passes to sm_load_u32; whether `(sm->state + l) > sm->state_end` is tested
                              before the allocation
  xmpp_conn_restore_sm_state  the tags of its sm_load_u32 calls in order, the version it memcmp's, the minimum
                              length (`sm_state_len < A * B`), and five yes/no facts about the code:
                                - the send-queue loop stores `item->prev = conn->send_queue_tail`
                                - err_reload empties the send queue and zeroes both counters
                                - err_reload clears conn->sm_state after xmpp_free_sm_state
                                - a `sm.state != sm.state_end` test (trailing bytes) exists
                                - a `strlen(conn->sm_state->id) != id_len` test exists
  common.h                    XMPP_QUEUE_* owner values, XMPP_STATE_* order;  strophe.h  XMPP_EINVOP
  _send_raw                   the text of req_ack
  xmpp_run_once (event.c)     whether the send loop clears the new head's prev after popping an element
The model (coq/Model/SmBlobModel.v) is defined over these values; Gen_smblob_ok re-checks them against the
format of coq/Spec/SmBlobSpec.v and against the code shape the theorems are proved for.
"""
import re

import translate as T


def func_body(src, name):
    m = re.search(r"\b" + re.escape(name) + r"\s*\([^;{]*\)\s*\{", src)
    if not m:
        raise T.TranslateError("function %s not found" % name)
    depth = 1
    i = m.end()
    while i < len(src) and depth:
        c = src[i]
        if c == '"' or c == "'":
            j = i + 1
            while src[j] != c:
                if src[j] == "\\":
                    j += 1
                j += 1
            i = j + 1
            continue
        if c == "{":
            depth += 1
        elif c == "}":
            depth -= 1
        i += 1
    if depth:
        raise T.TranslateError("unbalanced braces in %s" % name)
    return src[m.end():i - 1]


def c_string_bytes(body):
    out = []
    i = 0
    while i < len(body):
        c = body[i]
        if c != "\\":
            out.append(ord(c) & 255)
            i += 1
            continue
        i += 1
        e = body[i]
        if e == "x":
            j = i + 1
            while j < len(body) and body[j] in "0123456789abcdefABCDEF":
                j += 1
            out.append(int(body[i + 1:j], 16) & 255)
            i = j
        elif e in "01234567":
            j = i
            while j < len(body) and j < i + 3 and body[j] in "01234567":
                j += 1
            out.append(int(body[i:j], 8) & 255)
            i = j
        else:
            out.append({"n": 10, "t": 9, "r": 13, "\\": 92, "'": 39, '"': 34}[e])
            i += 1
    return out


STR = r'((?:"(?:[^"\\]|\\.)*"\s*)+)'


def str_lit(group):
    """adjacent string literals concatenated"""
    return sum((c_string_bytes(p) for p in re.findall(r'"((?:[^"\\]|\\.)*)"', group)), [])


def one(pattern, body, what, flags=0):
    ms = re.findall(pattern, body, flags)
    if len(ms) != 1:
        raise T.TranslateError("%s: found %d times" % (what, len(ms)))
    return ms[0]


def int_terms(expr):
    return sum(T.c_int(t) for t in re.findall(r"(?<![\w.>])(0[xX][0-9a-fA-F]+|\d+)(?![\w])", expr))


def values():
    src = T.strip_comments(T.read_src("src/conn.c"))
    v = {}
    ser = func_body(src, "sm_state_serialize")
    tags = [T.c_int(t) for t in re.findall(r"sm_store_u32\s*\(\s*&next\s*,\s*end\s*,\s*(\w+)\s*,", ser)]
    if len(tags) != 8:
        raise T.TranslateError("sm_state_serialize: expected 8 sm_store_u32 calls, found %d" % len(tags))
    v["ser_tags"] = tags
    g, n = one(r"memcpy\s*\(\s*next\s*,\s*" + STR + r",\s*(\d+)\s*\)", ser, "sm_state_serialize: memcpy(next, \"version\", n)")
    v["ser_version"] = str_lit(g)[:int(n)]
    v["ser_fixed"] = int_terms(one(r"size_t\s+buf_size\s*=([^;]*);", ser, "sm_state_serialize: buf_size ="))
    v["ser_sq_item"] = int_terms(one(r"send_queue_size\s*\+=([^;]*);", ser, "send_queue_size +="))
    v["ser_mq_item"] = int_terms(one(r"sm_queue_size\s*\+=([^;]*);", ser, "sm_queue_size +="))
    st = func_body(src, "sm_store_u32")
    v["store_need"] = T.c_int(one(r"next\s*\+\s*(\d+)\s*>\s*end", st, "sm_store_u32: next + N > end"))

    ld = func_body(src, "sm_load_u32")
    m = re.search(r"\(\s*sm->state\s*\+\s*(\d+)\s*\)\s*>\s*sm->state_end", ld)
    if not m:
        raise T.TranslateError("sm_load_u32: (sm->state + N) > sm->state_end not found")
    v["ld_need"] = int(m.group(1))
    deref = re.search(r"\*\s*sm->state\b", ld)
    if not deref:
        raise T.TranslateError("sm_load_u32: *sm->state not found")
    v["ld_check_first"] = m.start() < deref.start()
    v["ld_incr_before_check"] = bool(re.search(r"sm->state\s*\+\+", ld[:m.start()]))
    ls = func_body(src, "sm_load_string")
    v["ld_tag_str"] = T.c_int(one(r"sm_load_u32\s*\(\s*sm\s*,\s*(\w+)\s*,", ls, "sm_load_string: sm_load_u32(sm, tag"))
    malloc = re.search(r"strophe_alloc", ls)
    mchk = re.search(r"\(\s*sm->state\s*\+\s*l\s*\)\s*>\s*sm->state_end", ls)
    v["ld_str_check"] = bool(mchk and malloc and mchk.start() < malloc.start())

    rs = func_body(src, "xmpp_conn_restore_sm_state")
    ltags = [T.c_int(t) for t in re.findall(r"sm_load_u32\s*\(\s*&sm\s*,\s*(\w+)\s*,", rs)]
    if len(ltags) != 5:
        raise T.TranslateError("xmpp_conn_restore_sm_state: expected 5 sm_load_u32 calls, found %d" % len(ltags))
    v["ld_tags"] = ltags
    g, n = one(r"memcmp\s*\(\s*sm\.state\s*,\s*" + STR + r",\s*(\d+)\s*\)", rs, "restore: memcmp(sm.state, \"version\", n)")
    v["ld_version"] = str_lit(g)[:int(n)]
    a, b = one(r"sm_state_len\s*<\s*(\d+)\s*\*\s*(\d+)", rs, "restore: sm_state_len < A * B")
    v["min_len"] = int(a) * int(b)
    v["ld_skip"] = T.c_int(one(r"sm\.state\s*\+=\s*(\d+)\s*;", rs, "restore: sm.state += N"))
    err = rs[rs.index("err_reload:"):] if "err_reload:" in rs else ""
    if not err:
        raise T.TranslateError("restore: err_reload label not found")
    v["fix_prev"] = bool(re.search(r"item->prev\s*=\s*conn->send_queue_tail\s*;", rs))
    v["fix_err_queue"] = bool(re.search(r"while\s*\(\s*conn->send_queue_head\s*\)", err) and
                              re.search(r"conn->send_queue_tail\s*=\s*NULL\s*;", err) and
                              re.search(r"conn->send_queue_user_len\s*=\s*conn->send_queue_len\s*=\s*0\s*;", err))
    mfree = re.search(r"xmpp_free_sm_state\s*\(\s*conn->sm_state\s*\)\s*;", err)
    if not mfree:
        raise T.TranslateError("restore: err_reload does not call xmpp_free_sm_state(conn->sm_state)")
    v["fix_err_null"] = bool(re.search(r"conn->sm_state\s*=\s*NULL\s*;", err[mfree.end():]))
    v["fix_trailing"] = bool(re.search(r"sm\.state\s*!=\s*sm\.state_end", rs[:rs.index("err_reload:")]))
    v["fix_idnul"] = bool(re.search(r"strlen\s*\(\s*conn->sm_state->id\s*\)\s*!=\s*id_len", rs))

    ev = T.strip_comments(T.read_src("src/event.c"))
    ro = func_body(ev, "xmpp_run_once")
    mpop = re.search(r"conn->send_queue_head\s*=\s*sq\s*;", ro)
    if not mpop:
        raise T.TranslateError("xmpp_run_once: `conn->send_queue_head = sq;` not found")
    mtrig = ro.find("trigger_sm_callback", mpop.end())
    v["loop_clears_prev"] = bool(re.search(r"\bsq->prev\s*=\s*NULL\s*;", ro[mpop.end():mtrig if mtrig > 0 else len(ro)]))

    sr = func_body(src, "_send_raw")
    v["req_ack"] = str_lit(one(r"req_ack\s*=\s*" + STR + r";", sr, "_send_raw: req_ack ="))

    ch = T.strip_comments(T.read_src("src/common.h"))
    for name in ("XMPP_QUEUE_STROPHE", "XMPP_QUEUE_USER", "XMPP_QUEUE_SM"):
        v[name] = T.c_int(one(r"\b" + name + r"\s*=\s*(\w+)\s*,", ch, "common.h: %s =" % name))
    states = one(r"typedef\s+enum\s*\{([^}]*)\}\s*xmpp_conn_state_t", ch, "common.h: xmpp_conn_state_t")
    names = [s.strip() for s in states.split(",") if s.strip()]
    for want in ("XMPP_STATE_DISCONNECTED", "XMPP_STATE_CONNECTING", "XMPP_STATE_CONNECTED"):
        if want not in names:
            raise T.TranslateError("common.h: %s not in xmpp_conn_state_t" % want)
        v[want] = names.index(want)
    sh = T.strip_comments(T.read_src("strophe.h"))
    v["XMPP_EINVOP"] = int(T.find_define(sh, "XMPP_EINVOP").split()[0])
    return v


def zl(vals):
    return "[%s]" % "; ".join(str(x) for x in vals)


def b(x):
    return "true" if x else "false"


def generate():
    v = values()
    o = T.HEADER % "src/conn.c, src/common.h, strophe.h"
    o += "(* sm_state_serialize: tags of the sm_store_u32 calls in source order *)\n"
    names = ["ser_tag_sent", "ser_tag_handled", "ser_tag_id", "ser_tag_sqcount", "ser_tag_sqitem",
             "ser_tag_mqcount", "ser_tag_mqh", "ser_tag_mqitem"]
    for n, t in zip(names, v["ser_tags"]):
        o += "Definition %s : Z := %d.\n" % (n, t)
    o += "Definition ser_version : list Z := %s.\n" % zl(v["ser_version"])
    o += "Definition ser_fixed : Z := %d.\nDefinition ser_sq_item : Z := %d.\nDefinition ser_mq_item : Z := %d.\n" % (
        v["ser_fixed"], v["ser_sq_item"], v["ser_mq_item"])
    o += "Definition store_need : Z := %d.\n\n" % v["store_need"]
    o += "(* xmpp_conn_restore_sm_state / sm_load_u32 / sm_load_string *)\n"
    for n, t in zip(["ld_tag_sent", "ld_tag_handled", "ld_tag_sqcount", "ld_tag_mqcount", "ld_tag_mqh"], v["ld_tags"]):
        o += "Definition %s : Z := %d.\n" % (n, t)
    o += "Definition ld_tag_str : Z := %d.\n" % v["ld_tag_str"]
    o += "Definition ld_version : list Z := %s.\nDefinition ld_skip : Z := %d.\nDefinition blob_min_len : Z := %d.\n" % (
        zl(v["ld_version"]), v["ld_skip"], v["min_len"])
    o += "Definition ld_need : Z := %d.\n" % v["ld_need"]
    o += "Definition ld_check_first : bool := %s.\n" % b(v["ld_check_first"])
    o += "Definition ld_incr_before_check : bool := %s.\n" % b(v["ld_incr_before_check"])
    o += "(* sm_load_string tests `(sm->state + l) > sm->state_end` before it allocates and copies *)\n"
    o += "Definition ld_str_check : bool := %s.\n" % b(v["ld_str_check"])
    o += "Definition rst_links_prev : bool := %s.\n" % b(v["fix_prev"])
    o += "Definition rst_err_frees_queue : bool := %s.\n" % b(v["fix_err_queue"])
    o += "Definition rst_err_clears_sm : bool := %s.\n" % b(v["fix_err_null"])
    o += "Definition rst_checks_trailing : bool := %s.\n" % b(v["fix_trailing"])
    o += "Definition rst_checks_idnul : bool := %s.\n\n" % b(v["fix_idnul"])
    o += "(* xmpp_run_once: after `conn->send_queue_head = sq` the new head's prev is cleared *)\n"
    o += "Definition loop_clears_prev : bool := %s.\n\n" % b(v["loop_clears_prev"])
    o += "Definition req_ack : list Z := %s.\n" % zl(v["req_ack"])
    o += "Definition OWNER_STROPHE : Z := %d.\nDefinition OWNER_USER : Z := %d.\nDefinition OWNER_SM : Z := %d.\n" % (
        v["XMPP_QUEUE_STROPHE"], v["XMPP_QUEUE_USER"], v["XMPP_QUEUE_SM"])
    o += "Definition ST_DISCONNECTED : Z := %d.\nDefinition ST_CONNECTING : Z := %d.\nDefinition ST_CONNECTED : Z := %d.\n" % (
        v["XMPP_STATE_DISCONNECTED"], v["XMPP_STATE_CONNECTING"], v["XMPP_STATE_CONNECTED"])
    o += "Definition EINVOP : Z := %d.\n" % v["XMPP_EINVOP"]
    return o
