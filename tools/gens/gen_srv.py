"""Constants and comparison operators of the server-discovery path -> coq/Gen/Gen_srv.v   (property C14)

What is re-extracted on every run (SrvModel.v is defined over all of it, Gen_srv_ok in SrvProofs.v
re-checks it against SrvSpec.v):
  src/conn.c    CONNECT_TIMEOUT (and that xmpp_conn_new stores it in conn->connect_timeout);
                _conn_default_port: which XMPP_PORT_* constant is returned for XMPP_CLIENT with and
                without tls_legacy_ssl and for XMPP_COMPONENT;
                `altport = altport ? altport : _conn_default_port(conn, XMPP_CLIENT)` and
                `port = port ? port : _conn_default_port(conn, XMPP_COMPONENT)` (shape only)
  src/common.h  XMPP_PORT_CLIENT / XMPP_PORT_CLIENT_LEGACY_SSL / XMPP_PORT_COMPONENT, MAX_DOMAIN_LEN
  src/event.c   the comparison operator of the CONNECTING time-out test
                `time_elapsed(conn->timeout_stamp, time_stamp()) <op> conn->connect_timeout`
                and the ETIMEDOUT assignment of the time-out branch
  src/sock.c    the service / protocol strings of the SRV query
  strophe.h     XMPP_EOK / XMPP_EMEM / XMPP_EINVOP / XMPP_EINT; the XMPP_CONN_FLAG_* bit numbers
Anything that is not found in that shape raises TranslateError (reported as a broken obligation).
"""
import re

import translate as T

OPS = {">=": "(%s >=? %s)", ">": "(%s >? %s)", "<=": "(%s <=? %s)", "<": "(%s <? %s)",
       "==": "(%s =? %s)", "!=": "negb (%s =? %s)"}


def need(pat, text, what):
    m = re.search(pat, text, re.S)
    if not m:
        raise T.TranslateError("%s not found" % what)
    return m


def func_body(src, name):
    for m in re.finditer(r"\b" + re.escape(name) + r"\s*\(", src):
        i = m.end()
        depth = 1
        while i < len(src) and depth:
            depth += {"(": 1, ")": -1}.get(src[i], 0)
            i += 1
        j = i
        while j < len(src) and src[j].isspace():
            j += 1
        if j < len(src) and src[j] == "{":
            depth = 1
            k = j + 1
            while k < len(src) and depth:
                depth += {"{": 1, "}": -1}.get(src[k], 0)
                k += 1
            return src[j:k]
    raise T.TranslateError("function %s not found" % name)


def zbytes(s):
    return "[" + "; ".join(str(b) for b in s.encode("latin-1")) + "]"


def generate():
    conn = T.strip_comments(T.read_src("src/conn.c"))
    common = T.strip_comments(T.read_src("src/common.h"))
    event = T.strip_comments(T.read_src("src/event.c"))
    sock = T.strip_comments(T.read_src("src/sock.c"))
    pub = T.strip_comments(T.read_src("strophe.h"))
    d = {}

    d["CONNECT_TIMEOUT"] = T.c_int(T.find_define(conn, "CONNECT_TIMEOUT"))
    need(r"conn->connect_timeout\s*=\s*CONNECT_TIMEOUT\s*;", conn, "conn->connect_timeout = CONNECT_TIMEOUT")
    ports = {}
    for name in ("XMPP_PORT_CLIENT", "XMPP_PORT_CLIENT_LEGACY_SSL", "XMPP_PORT_COMPONENT"):
        ports[name] = T.c_int(need(r"\b" + name + r"\s*=\s*(\w+)\s*[,}]", common, name).group(1))
        d[name] = ports[name]
    d["SRV_MAX_DOMAIN_LEN"] = T.c_int(T.find_define(common, "MAX_DOMAIN_LEN"))

    dp = func_body(conn, "_conn_default_port")
    m = need(r"case\s+XMPP_CLIENT\s*:\s*return\s+conn->tls_legacy_ssl\s*\?\s*(\w+)\s*:\s*(\w+)\s*;", dp,
             "_conn_default_port: XMPP_CLIENT case")
    m2 = need(r"case\s+XMPP_COMPONENT\s*:\s*return\s+(\w+)\s*;", dp, "_conn_default_port: XMPP_COMPONENT case")
    for nm in (m.group(1), m.group(2), m2.group(1)):
        if nm not in ports:
            raise T.TranslateError("_conn_default_port returns %s" % nm)
    need(r"altport\s*=\s*altport\s*\?\s*altport\s*:\s*_conn_default_port\(\s*conn\s*,\s*XMPP_CLIENT\s*\)", conn,
         "altport default in xmpp_connect_client")
    need(r"port\s*=\s*port\s*\?\s*port\s*:\s*_conn_default_port\(\s*conn\s*,\s*XMPP_COMPONENT\s*\)", conn,
         "port default in xmpp_connect_component")

    run = func_body(event, "xmpp_run_once")
    t = need(r"if\s*\(\s*time_elapsed\(\s*conn->timeout_stamp\s*,\s*time_stamp\(\)\s*\)\s*(\S+)\s*conn->connect_timeout\s*\)\s*"
             r"FD_SET\(\s*conn->sock\s*,\s*&wfds\s*\)\s*;\s*else", run, "CONNECTING time-out test")
    if t.group(1) not in OPS:
        raise T.TranslateError("unexpected comparison operator %r in the time-out test" % t.group(1))
    need(r"ret\s*=\s*_connect_next\(conn\)\s*;\s*if\s*\(\s*ret\s*!=\s*0\s*\)\s*\{\s*conn->error\s*=\s*ETIMEDOUT\s*;\s*conn_disconnect\(conn\)",
         run, "ETIMEDOUT in the time-out branch")

    q = need(r'resolver_srv_lookup\(\s*ctx\s*,\s*"([^"]*)"\s*,\s*"([^"]*)"\s*,\s*domain\s*,', sock, "resolver_srv_lookup call in sock_new")

    for name in ("XMPP_EOK", "XMPP_EMEM", "XMPP_EINVOP", "XMPP_EINT"):
        d[name] = T.c_int(T.find_define(pub, name))
    bits = {}
    for name in ("DISABLE_TLS", "MANDATORY_TLS", "LEGACY_SSL", "TRUST_TLS"):
        bits[name] = T.c_int(need(r"#\s*define\s+XMPP_CONN_FLAG_" + name + r"\s+\(\s*1UL\s*<<\s*(\w+)\s*\)", pub,
                                  "XMPP_CONN_FLAG_" + name).group(1))

    out = T.HEADER % "src/conn.c, src/common.h, src/event.c, src/sock.c, strophe.h"
    for k in ("CONNECT_TIMEOUT", "XMPP_PORT_CLIENT", "XMPP_PORT_CLIENT_LEGACY_SSL", "XMPP_PORT_COMPONENT",
              "SRV_MAX_DOMAIN_LEN", "XMPP_EOK", "XMPP_EMEM", "XMPP_EINVOP", "XMPP_EINT"):
        v = d[k]
        out += "Definition %s : Z := %s.\n" % (k, str(v) if v >= 0 else "(%d)" % v)
    out += "\n(* XMPP_CONN_FLAG_x = 1UL << bit *)\n"
    for k in ("DISABLE_TLS", "MANDATORY_TLS", "LEGACY_SSL", "TRUST_TLS"):
        out += "Definition FLAG_%s : Z := %d.\n" % (k, 1 << bits[k])
    out += "\n(* _conn_default_port *)\n"
    out += "Definition default_port_client (legacy_ssl : bool) : Z := if legacy_ssl then %s else %s.\n" % (m.group(1), m.group(2))
    out += "Definition default_port_component : Z := %s.\n" % m2.group(1)
    out += "\n(* event.c: `if (time_elapsed(conn->timeout_stamp, time_stamp()) %s conn->connect_timeout)` -> keep waiting *)\n" % t.group(1)
    out += "Definition connect_in_time (elapsed timeout : Z) : bool := %s.\n" % (OPS[t.group(1)] % ("elapsed", "timeout"))
    out += "\n(* sock_new: resolver_srv_lookup(ctx, \"%s\", \"%s\", domain, ...) *)\n" % (q.group(1), q.group(2))
    out += "Definition srv_service : list Z := %s.\n" % zbytes(q.group(1))
    out += "Definition srv_proto : list Z := %s.\n" % zbytes(q.group(2))
    return out
