"""Constants and tables of src/stanza.c (+ strophe.h) -> coq/Gen/Gen_stanza.v

Re-extracted on every run (comments / whitespace invisible):
  xmpp_stanza_to_text        `length = N;`                      -> stanza_init_buf
  xmpp_stanza_set_attribute  `hash_new(stanza->ctx, N, ...)`    -> attr_hash_size
  _escape_xml                first switch:  case 'c': ... len += N / default len++  -> esc_len_table
                             second switch: case 'c': strcpy(dst, "ENT"); dst += N  -> esc_table, esc_adv_table
  _render_stanza_recursive   the snprintf format strings, in order                  -> render_formats
                             the literal compared with the attribute key            -> xmlns_key
                             the macro compared at top level                        -> top_elided_ns (its value)
                             whether the parent test excludes the render root and the top-level test
                             includes it, and the call sites pass the root          -> render_root_is_top
  xmpp_stanza_reply          the names given to xmpp_stanza_del_attribute           -> reply_deleted
  xmpp_stanza_reply_error    literal strings / macros, in order                     -> reply_error_literals
  xmpp_error_new             element name; case XMPP_SE_x -> name table in the order of the enum
                             xmpp_error_type_t of strophe.h; default name           -> stream_error_names ...
  strophe.h                  XMPP_NS_CLIENT, XMPP_NS_STANZAS_IETF, XMPP_NS_STREAMS_IETF
Anything not found in that shape raises TranslateError (reported as a broken obligation).
"""
import re

import translate as T

STR = r'"((?:[^"\\]|\\.)*)"'
_ESC = {"n": 10, "t": 9, "r": 13, "0": 0, "\\": 92, "'": 39, '"': 34, "a": 7, "b": 8, "f": 12, "v": 11, "?": 63}


def c_string_bytes(body):
    out = []
    i = 0
    while i < len(body):
        c = body[i]
        if c != "\\":
            out += list(c.encode("utf-8"))
            i += 1
            continue
        i += 1
        e = body[i]
        if e == "x":
            j = i + 1
            while j < len(body) and body[j] in "0123456789abcdefABCDEF":
                j += 1
            out.append(int(body[i + 1:j], 16) & 255)
            i = j
        elif e in "01234567":
            j = i
            while j < len(body) and j < i + 3 and body[j] in "01234567":
                j += 1
            out.append(int(body[i:j], 8) & 255)
            i = j
        else:
            if e not in _ESC:
                raise T.TranslateError("unknown escape \\%s" % e)
            out.append(_ESC[e])
            i += 1
    return out


def func_body(src, name):
    m = re.search(r"\b" + re.escape(name) + r"\s*\([^;{]*\)\s*\{", src)
    if not m:
        raise T.TranslateError("function %s not found" % name)
    depth = 1
    i = m.end()
    while i < len(src) and depth:
        c = src[i]
        if c == '"' or c == "'":
            j = i + 1
            while src[j] != c:
                if src[j] == "\\":
                    j += 1
                j += 1
            i = j + 1
            continue
        if c == "{":
            depth += 1
        elif c == "}":
            depth -= 1
        i += 1
    if depth:
        raise T.TranslateError("unbalanced braces in %s" % name)
    return src[m.end():i - 1]


def one(pattern, body, what):
    ms = re.findall(pattern, body)
    if len(ms) != 1:
        raise T.TranslateError("%s: found %d times" % (what, len(ms)))
    return ms[0]


def switch_bodies(body, fn):
    """The `switch (*src) { ... }` blocks of a function, in order."""
    res = []
    for m in re.finditer(r"switch\s*\(\s*\*\s*src\s*\)\s*\{", body):
        depth = 1
        i = m.end()
        while depth:
            if body[i] == "{":
                depth += 1
            elif body[i] == "}":
                depth -= 1
            elif body[i] in "\"'":
                q = body[i]
                i += 1
                while body[i] != q:
                    if body[i] == "\\":
                        i += 1
                    i += 1
            i += 1
        res.append(body[m.end():i - 1])
    if len(res) != 2:
        raise T.TranslateError("%s: expected two switch(*src) blocks, found %d" % (fn, len(res)))
    return res


def split_cases(sw):
    """[(list of case chars or ['default'], statements)] of a switch body; fall-through labels grouped."""
    toks = re.split(r"(\bcase\s*'(?:[^'\\]|\\.)'\s*:|\bdefault\s*:)", sw)
    groups = []
    labels = []
    for t in toks[1:]:
        m = re.match(r"case\s*('(?:[^'\\]|\\.)')\s*:", t)
        if m:
            labels.append(T.c_int(m.group(1)))
        elif re.match(r"default\s*:", t):
            labels.append("default")
        else:
            if t.strip():
                groups.append((labels, t))
                labels = []
    if labels:
        raise T.TranslateError("_escape_xml: labels without statements")
    return groups


def macro_string(hdr, name):
    v = T.find_define(hdr, name)
    m = re.match(STR, v)
    if not m:
        raise T.TranslateError("macro %s is not a string literal" % name)
    return c_string_bytes(m.group(1))


def bl(bs):
    return "[" + "; ".join(str(b) for b in bs) + "]"


def values():
    src = T.strip_comments(T.read_src("src/stanza.c"))
    hdr = T.strip_comments(T.read_src("strophe.h"))
    v = {}
    # --- to_text
    tt = func_body(src, "xmpp_stanza_to_text")
    v["stanza_init_buf"] = T.c_int(one(r"\blength\s*=\s*([0-9a-fA-FxXuUlL]+)\s*;", tt, "xmpp_stanza_to_text: length = N;"))
    # --- attribute table size
    sa = func_body(src, "xmpp_stanza_set_attribute")
    v["attr_hash_size"] = T.c_int(one(r"\bhash_new\s*\(\s*stanza\s*->\s*ctx\s*,\s*([0-9a-fA-FxXuUlL]+)\s*,", sa,
                                      "xmpp_stanza_set_attribute: hash_new(stanza->ctx, N, ..)"))
    # --- escape tables
    esc = func_body(src, "_escape_xml")
    sw1, sw2 = switch_bodies(esc, "_escape_xml")
    lens = {}
    deflen = None
    for labels, st in split_cases(sw1):
        if re.search(r"\blen\s*\+\+", st):
            n = 1
        else:
            n = T.c_int(one(r"\blen\s*\+=\s*([0-9]+)\s*;", st, "_escape_xml: len += N"))
        for lab in labels:
            if lab == "default":
                deflen = n
            else:
                lens[lab] = n
    if deflen != 1:
        raise T.TranslateError("_escape_xml: default case of the length pass is not len++")
    ents = {}
    advs = {}
    defcopy = False
    for labels, st in split_cases(sw2):
        if "default" in labels:
            if not re.search(r"\*\s*dst\s*=\s*\*\s*src\s*;", st) or not re.search(r"dst\s*\+\+", st):
                raise T.TranslateError("_escape_xml: default case of the fill pass is not *dst = *src; dst++")
            defcopy = True
            if len(labels) > 1:
                raise T.TranslateError("_escape_xml: character case shares the default branch")
            continue
        e = c_string_bytes(one(r"\bstrcpy\s*\(\s*dst\s*,\s*" + STR + r"\s*\)", st, "_escape_xml: strcpy(dst, \"..\")"))
        a = T.c_int(one(r"\bdst\s*\+=\s*([0-9]+)\s*;", st, "_escape_xml: dst += N"))
        for lab in labels:
            ents[lab] = e
            advs[lab] = a
    if not defcopy:
        raise T.TranslateError("_escape_xml: fill pass has no default case")
    v["esc_len_table"] = sorted(lens.items())
    v["esc_table"] = sorted(ents.items())
    v["esc_adv_table"] = sorted(advs.items())
    # --- renderer
    rr = func_body(src, "_render_stanza_recursive")
    v["render_formats"] = [c_string_bytes(s) for s in
                           re.findall(r"\bstrophe_snprintf\s*\(\s*ptr\s*,\s*left\s*,\s*" + STR, rr)]
    v["xmlns_key"] = c_string_bytes(one(r"!\s*strcmp\s*\(\s*key\s*,\s*" + STR + r"\s*\)", rr,
                                        "_render_stanza_recursive: !strcmp(key, \"..\")"))
    top = one(r"!\s*strcmp\s*\(\s*\(\s*char\s*\*\s*\)\s*hash_get\s*\(\s*stanza\s*->\s*attributes\s*,\s*key\s*\)\s*,\s*(XMPP_NS_\w+)\s*\)",
              rr, "_render_stanza_recursive: top-level elision test")
    # is the stanza handed to xmpp_stanza_to_text rendered as the top of the output (its own parent, which is
    # not part of the output, ignored)?  Two accepted shapes:
    #   old:  if (stanza->parent && ...parent's xmlns equal) continue;   if (!stanza->parent && ...CLIENT) continue;
    #   new:  if (stanza != root && stanza->parent && ...) continue;     if ((stanza == root || !stanza->parent) && ...) continue;
    par = re.findall(r"if\s*\(\s*(stanza\s*!=\s*root\s*&&\s*)?stanza\s*->\s*parent\s*&&\s*stanza\s*->\s*parent\s*->\s*attributes\s*&&", rr)
    topc = re.findall(r"if\s*\(\s*(\(\s*stanza\s*==\s*root\s*\|\|\s*!\s*stanza\s*->\s*parent\s*\)|!\s*stanza\s*->\s*parent)\s*&&\s*!\s*strcmp", rr)
    if len(par) != 1 or len(topc) != 1:
        raise T.TranslateError("_render_stanza_recursive: xmlns elision tests not in a known shape")
    new_par = par[0] != ""
    new_top = "root" in topc[0]
    tt_calls = re.findall(r"_render_stanza_recursive\s*\(([^;]*?)\)\s*;", tt)
    rec_calls = re.findall(r"_render_stanza_recursive\s*\(([^;]*?)\)\s*;", rr)
    norm = lambda a: [x.strip() for x in a.split(",")]
    if new_par or new_top:
        ok = (new_par and new_top and len(tt_calls) == 2 and all(norm(a)[:2] == ["stanza", "stanza"] for a in tt_calls)
              and len(rec_calls) == 1 and norm(rec_calls[0])[:2] == ["child", "root"])
        if not ok:
            raise T.TranslateError("_render_stanza_recursive: the render root is only partly treated as top level")
        v["render_root_is_top"] = True
    else:
        if not (len(tt_calls) == 2 and all(norm(a)[0] == "stanza" for a in tt_calls) and len(rec_calls) == 1
                and norm(rec_calls[0])[0] == "child"):
            raise T.TranslateError("_render_stanza_recursive: unexpected call shape")
        v["render_root_is_top"] = False
    v["top_elided_ns"] = macro_string(hdr, top)
    # --- reply
    rp = func_body(src, "xmpp_stanza_reply")
    v["reply_deleted"] = [c_string_bytes(s) for s in
                          re.findall(r"\bxmpp_stanza_del_attribute\s*\(\s*copy\s*,\s*" + STR + r"\s*\)", rp)]
    re_ = func_body(src, "xmpp_stanza_reply_error")
    lits = []
    for m in re.finditer(STR + r"|\b(XMPP_NS_\w+)\b", re_):
        lits.append(c_string_bytes(m.group(1)) if m.group(1) is not None else macro_string(hdr, m.group(2)))
    v["reply_error_literals"] = lits
    # --- xmpp_error_new
    en = func_body(src, "xmpp_error_new")
    v["stream_error_elem"] = c_string_bytes(one(r"_stanza_new_with_attrs\s*\(\s*ctx\s*,\s*" + STR, en,
                                                "xmpp_error_new: element name"))
    m = re.search(r"typedef\s+enum\s*\{([^}]*)\}\s*xmpp_error_type_t\s*;", hdr)
    if not m:
        raise T.TranslateError("enum xmpp_error_type_t not found")
    enum = [e.strip().split("=")[0].strip() for e in m.group(1).split(",") if e.strip()]
    cases = dict(re.findall(r"case\s+(XMPP_SE_\w+)\s*:\s*xmpp_stanza_set_name\s*\(\s*error_type\s*,\s*" + STR + r"\s*\)\s*;\s*break\s*;", en))
    names = []
    for e in enum:
        if e not in cases:
            raise T.TranslateError("xmpp_error_new: no case for %s" % e)
        names.append(c_string_bytes(cases[e]))
    if len(cases) != len(enum):
        raise T.TranslateError("xmpp_error_new: %d cases for %d enumerators" % (len(cases), len(enum)))
    v["stream_error_names"] = names
    v["stream_error_default"] = c_string_bytes(one(r"default\s*:\s*xmpp_stanza_set_name\s*\(\s*error_type\s*,\s*" + STR, en,
                                                   "xmpp_error_new: default name"))
    nss = re.findall(r"xmpp_stanza_set_ns\s*\(\s*\w+\s*,\s*(\w+)\s*\)", en)
    if not nss or len(set(nss)) != 1:
        raise T.TranslateError("xmpp_error_new: expected one namespace macro, found %r" % (nss,))
    v["stream_error_ns"] = macro_string(hdr, nss[0])
    v["stream_error_text_elem"] = c_string_bytes(one(r"xmpp_stanza_set_name\s*\(\s*error_text\s*,\s*" + STR, en,
                                                     "xmpp_error_new: text element name"))
    # --- namespaces
    v["ns_client"] = macro_string(hdr, "XMPP_NS_CLIENT")
    v["ns_stanzas_ietf"] = macro_string(hdr, "XMPP_NS_STANZAS_IETF")
    v["ns_streams_ietf"] = macro_string(hdr, "XMPP_NS_STREAMS_IETF")
    return v


def generate():
    v = values()
    out = T.HEADER % "src/stanza.c, strophe.h"
    out += "(* xmpp_stanza_to_text: size of the first buffer *)\nDefinition stanza_init_buf : Z := %d.\n" % v["stanza_init_buf"]
    out += "(* xmpp_stanza_set_attribute: bucket count of the attribute table *)\nDefinition attr_hash_size : Z := %d.\n\n" % v["attr_hash_size"]
    out += "(* _escape_xml, length pass: character -> bytes counted (default 1) *)\n"
    out += "Definition esc_len_table : list (Z * Z) := [%s].\n" % "; ".join("(%d, %d)" % kv for kv in v["esc_len_table"])
    out += "(* _escape_xml, fill pass: character -> string copied, and -> advance of dst *)\n"
    out += "Definition esc_table : list (Z * list Z) := [%s].\n" % "; ".join("(%d, %s)" % (k, bl(e)) for k, e in v["esc_table"])
    out += "Definition esc_adv_table : list (Z * Z) := [%s].\n\n" % "; ".join("(%d, %d)" % kv for kv in v["esc_adv_table"])
    out += "(* _render_stanza_recursive: snprintf formats in source order, the elided key, the namespace elided at top level *)\n"
    out += "Definition render_formats : list (list Z) := [%s].\n" % ";\n  ".join(bl(f) for f in v["render_formats"])
    out += "Definition xmlns_key : list Z := %s.\n" % bl(v["xmlns_key"])
    out += "Definition top_elided_ns : list Z := %s.\n" % bl(v["top_elided_ns"])
    out += "(* xmpp_stanza_to_text renders its argument as the top of the output (the argument's own parent is ignored) *)\n"
    out += "Definition render_root_is_top : bool := %s.\n\n" % ("true" if v["render_root_is_top"] else "false")
    out += "(* xmpp_stanza_reply: attributes deleted from the copy, in order *)\n"
    out += "Definition reply_deleted : list (list Z) := [%s].\n" % "; ".join(bl(f) for f in v["reply_deleted"])
    out += "(* xmpp_stanza_reply_error: string literals / namespace macros in source order *)\n"
    out += "Definition reply_error_literals : list (list Z) := [%s].\n\n" % ";\n  ".join(bl(f) for f in v["reply_error_literals"])
    out += "(* xmpp_error_new *)\n"
    out += "Definition stream_error_elem : list Z := %s.\n" % bl(v["stream_error_elem"])
    out += "Definition stream_error_text_elem : list Z := %s.\n" % bl(v["stream_error_text_elem"])
    out += "Definition stream_error_ns : list Z := %s.\n" % bl(v["stream_error_ns"])
    out += "Definition stream_error_default : list Z := %s.\n" % bl(v["stream_error_default"])
    out += "Definition stream_error_names : list (list Z) := [\n  %s\n].\n\n" % ";\n  ".join(bl(f) for f in v["stream_error_names"])
    out += "(* strophe.h *)\n"
    out += "Definition ns_client : list Z := %s.\n" % bl(v["ns_client"])
    out += "Definition ns_stanzas_ietf : list Z := %s.\n" % bl(v["ns_stanzas_ietf"])
    out += "Definition ns_streams_ietf : list Z := %s.\n" % bl(v["ns_streams_ietf"])
    return out
