"""TLS verification policy of src/tls_openssl.c -> coq/Gen/Gen_tls.v

The file is run through the real preprocessor (gcc -E with the flags of the verification build), so
conditional compilation is resolved as compiled and OpenSSL's constants (SSL_VERIFY_NONE/PEER,
X509_CHECK_FLAG_*) arrive as the numbers of the installed headers.  Extracted from tls_new():

  tls_verify_calls    : every SSL_set_verify / SSL_CTX_set_verify call as (guard, mode, callback)
  tls_hostflags_calls : every X509_VERIFY_PARAM_set_hostflags / SSL_set_hostflags call as (guard, flags)
  tls_host_calls      : every X509_VERIFY_PARAM_set1_host / SSL_set1_host call as (guard, 1 iff the
                        name is conn->domain, NUL-terminated, set on the SSL object's own parameters)
  tls_app_data_is_conn: SSL_set_app_data(tls->ssl, conn) is present (how _tls_verify finds the policy)
and from _tls_verify(): its return statements as (guard, value):
  tls_verify_shape    : guard 1 = `preverify_ok == 1`, 2 = `!conn->certfail_handler`, 3 = `!tlscert`,
                        0 = final return; value 100 = the user handler's answer, else the literal

  tls_verify_cert_accessor : which certificate _tls_verify converts for the user's handler: 1 =
                        X509_STORE_CTX_get_current_cert(x509_ctx) (the one the error is about), 2 = get0_cert (always
                        the leaf), 9 = anything else / not handed to the handler
and from the callers of conn_tls_start (src/auth.c, src/conn.c), the calls made when it failed, in order:
  tls_proceed_failure_calls : the `else` block of `if (conn_tls_start(conn) == 0)` in _handle_proceedtls_default
  tls_legacy_failure_calls  : the block of `if (conn_tls_start(conn) != 0)` in conn_established
  (1 xmpp_disconnect, 2 conn_disconnect, 3 _auth, 4 conn_open_stream, 5 conn_prepare_reset, 6 return, 9 other /
   the branch is itself conditional; logging calls are skipped)

and from every src/*.c of the build: the functions that write conn->domain (assignment, strophe_free_and_null, address taken):
  tls_domain_written_in : sorted codes, 1 = _conn_connect (copies the domain of the configured JID), 2 = _conn_reset, 9 = any other
                          function (the name tls_new pins would no longer be the one the user configured)

and three plain facts:
  tls_set_handler_unconditional : the body of xmpp_conn_set_certfail_handler is exactly `conn->certfail_handler = hndl;`
                                  (so that setting NULL removes a handler and a later setting replaces an earlier one)
  tls_time_overrides            : number of calls in tls_openssl.c that change the verification time or verification flags
                                  (X509_VERIFY_PARAM_set_time, X509_STORE_CTX_set_time, *_set_flags on verify parameters /
                                  store / store context, SSL_CTX_set1_param, SSL_set1_param): the validity period is checked
                                  against the real clock
  tls_secured_only_after_start  : in conn_tls_start the only write of conn->secured is `conn->secured = 1;` as the body of
                                  `if (tls_start(conn->tls))`, i.e. after the handshake has succeeded

guard codes: 0 unconditional (main flow of tls_new), 1 = if (conn->tls_trust), 2 = if (!conn->tls_trust) or the
else branch of 1, 9 = anything else (makes Gen_tls_ok fail).  callback codes: 0 NULL, 1 _tls_verify, 9 other.
"""
import re
import subprocess

import translate as T

DEFS = ["-DHAVE_STDINT_H=1", "-DHAVE_CLOCK_GETTIME=1", "-DHAVE_SNPRINTF=1", "-DHAVE_VSNPRINTF=1",
        "-DHAVE_VA_COPY=1", "-DHAVE_GETRANDOM=1", "-DHAVE_ZLIB=1", "-DLIBXMPP_VERSION_MAJOR=0",
        "-DLIBXMPP_VERSION_MINOR=14", "-DSTROPHE_LIBSTROPHE_VERIF"]


def preprocess():
    src = T.REPO + "/src/tls_openssl.c"
    p = subprocess.run(["gcc", "-E", "-P"] + DEFS + ["-I" + T.REPO, "-I" + T.REPO + "/src", src],
                       stdout=subprocess.PIPE, stderr=subprocess.PIPE, timeout=120)
    if p.returncode != 0:
        raise T.TranslateError("gcc -E tls_openssl.c failed: " + p.stderr.decode("utf-8", "replace")[:300])
    return re.sub(r"\s+", " ", p.stdout.decode("utf-8", "replace"))


def func_body(text, header_re):
    m = re.search(header_re + r"\s*\{", text)
    if not m:
        raise T.TranslateError("function %s not found" % header_re)
    i = m.end()
    depth = 1
    while i < len(text) and depth:
        c = text[i]
        if c == '"' or c == "'":
            j = i + 1
            while text[j] != c:
                if text[j] == "\\":
                    j += 1
                j += 1
            i = j
        elif c == "{":
            depth += 1
        elif c == "}":
            depth -= 1
        i += 1
    return text[m.end():i - 1]


def match_back(t, close_pos, op, cl):
    """t[close_pos] == cl; index of the matching op, scanning backwards."""
    d = 0
    i = close_pos
    while i >= 0:
        if t[i] == cl:
            d += 1
        elif t[i] == op:
            d -= 1
            if d == 0:
                return i
        i -= 1
    return -1


def match_fwd(t, open_pos):
    d = 0
    i = open_pos
    while i < len(t):
        if t[i] == "(":
            d += 1
        elif t[i] == ")":
            d -= 1
            if d == 0:
                return i
        i += 1
    return -1


def cond_code(cond):
    c = cond.replace(" ", "")
    while c.startswith("(") and match_fwd(c, 0) == len(c) - 1:
        c = c[1:-1]
    if c in ("conn->tls_trust", "conn->tls_trust!=0", "conn->tls_trust==1"):
        return 1
    if c in ("!conn->tls_trust", "conn->tls_trust==0"):
        return 2
    return 9


def neg(code):
    return {1: 2, 2: 1}.get(code, 9)


def if_cond_before(t):
    """t ends just after `if ( cond )`: return cond code, else None."""
    t = t.rstrip()
    if not t.endswith(")"):
        return None
    o = match_back(t, len(t) - 1, "(", ")")
    if o < 0:
        return None
    if re.search(r"(^|[^\w])if\s*$", t[:o]):
        return cond_code(t[o + 1:len(t) - 1])
    return None


def stmt_guard_of_else(t):
    """t ends just before `else`: find the `if (cond)` this else belongs to."""
    t = t.rstrip()
    if t.endswith("}"):
        o = match_back(t, len(t) - 1, "{", "}")
        if o < 0:
            return 9
        c = if_cond_before(t[:o])
        return neg(c) if c is not None else 9
    if not t.endswith(";"):
        return 9
    # skip one simple statement backwards
    i = len(t) - 2
    while i >= 0:
        ch = t[i]
        if ch == ")":
            o = match_back(t, i, "(", ")")
            if o < 0:
                return 9
            if re.search(r"(^|[^\w])if\s*$", t[:o]):
                return neg(cond_code(t[o + 1:i]))
            i = o - 1
            continue
        if ch in ";{}":
            return 9
        i -= 1
    return 9


def guard_of(body, pos, main_depth):
    """guard code of the statement starting at body[pos]."""
    t = body[:pos].rstrip()
    in_block = False
    if t.endswith("{"):
        t = t[:-1].rstrip()
        in_block = True
    c = if_cond_before(t)
    if c is not None:
        return c
    if re.search(r"(^|[^\w])else$", t):
        return stmt_guard_of_else(t[:-4])
    if in_block:
        return 9
    if t.endswith(";") or t.endswith("}"):
        depth = body[:pos].count("{") - body[:pos].count("}")
        return 0 if depth == main_depth else 9
    return 9


def split_args(s):
    args, cur, d = [], "", 0
    for ch in s:
        if ch == "(":
            d += 1
        elif ch == ")":
            d -= 1
        if ch == "," and d == 0:
            args.append(cur.strip())
            cur = ""
        else:
            cur += ch
    args.append(cur.strip())
    return args


def int_expr(e):
    e = e.replace(" ", "")
    while e.startswith("(") and match_fwd(e, 0) == len(e) - 1:
        e = e[1:-1]
    v = 0
    for part in e.split("|"):
        while part.startswith("(") and match_fwd(part, 0) == len(part) - 1:
            part = part[1:-1]
        try:
            v |= T.c_int(part)
        except Exception:
            return 9999
    return v


def calls(body, names):
    out = []
    for m in re.finditer(r"(?<![\w>.])(" + "|".join(names) + r")\s*\(", body):
        o = m.end() - 1
        c = match_fwd(body, o)
        out.append((m.start(), m.group(1), split_args(body[o + 1:c])))
    return out


def cb_code(e):
    e = e.replace(" ", "")
    if e in ("_tls_verify", "&_tls_verify"):
        return 1
    if e in ("((void*)0)", "(void*)0", "0", "NULL"):
        return 0
    return 9


CALL_CODES = {"xmpp_disconnect": 1, "conn_disconnect": 2, "_auth": 3, "conn_open_stream": 4, "conn_prepare_reset": 5}
LOGGING = {"strophe_debug", "strophe_error", "strophe_warn", "strophe_info", "strophe_debug_verbose", "UNUSED"}


def block_after(text, pos):
    """text[pos:] starts (after blanks) with `{`: return (inside, index after the closing brace)."""
    i = pos
    while i < len(text) and text[i].isspace():
        i += 1
    if i >= len(text) or text[i] != "{":
        return None, i
    d = 0
    j = i
    while j < len(text):
        if text[j] == "{":
            d += 1
        elif text[j] == "}":
            d -= 1
            if d == 0:
                return text[i + 1:j], j + 1
        j += 1
    return None, i


def stmt_codes(block):
    codes = []
    for st in block.split(";"):
        st = st.strip()
        if not st:
            continue
        if st == "return" or st.startswith("return "):
            codes.append(6)
            continue
        m = re.match(r"([A-Za-z_]\w*)\s*\(", st)
        if m and m.group(1) in LOGGING:
            continue
        if m and m.group(1) in CALL_CODES and "{" not in st and not st.startswith("if"):
            codes.append(CALL_CODES[m.group(1)])
        else:
            codes.append(9)
    return codes


def failure_reaction(rel, func_re, cond_re, in_else):
    text = re.sub(r"\s+", " ", T.strip_comments(T.read_src(rel)))
    body = func_body(text, func_re)
    m = re.search(r"if \( ?" + cond_re + r" ?\)", body)
    if not m:
        return [9]
    blk, end = block_after(body, m.end())
    if blk is None:
        return [9]
    if not in_else:
        return stmt_codes(blk)
    rest = body[end:].lstrip()
    if not rest.startswith("else"):
        return []
    rest = rest[4:]
    if rest.lstrip().startswith("if"):
        return [9]              # the failure branch is itself conditional
    blk, _ = block_after(rest, 0)
    return stmt_codes(blk) if blk is not None else [9]


EXCLUDED_SRC = {"tls_dummy.c", "tls_gnutls.c", "tls_schannel.c", "parser_libxml2.c", "compression_dummy.c", "snprintf.c"}
DOMAIN_WRITE = re.compile(r"(?:\w+->domain\s*(?:\[[^\]]*\]\s*)?=(?!=))|(?:strophe_free_and_null\s*\([^;]*->domain\s*\))|(?:&\s*\w+->domain\b)")


def enclosing_functions(text):
    """(start, end, name) of every top-level braced block that follows `name(...)`."""
    out = []
    depth = 0
    i = 0
    start = None
    name = None
    n = len(text)
    while i < n:
        c = text[i]
        if c == '"' or c == "'":
            j = i + 1
            while j < n and text[j] != c:
                if text[j] == "\\":
                    j += 1
                j += 1
            i = j
        elif c == "{":
            if depth == 0:
                start = i
                m = re.search(r"(\w+)\s*\((?:[^()]|\([^()]*\))*\)\s*$", text[max(0, i - 600):i])
                name = m.group(1) if m else None
            depth += 1
        elif c == "}":
            depth -= 1
            if depth == 0 and start is not None:
                out.append((start, i, name))
                start = None
        i += 1
    return out


def domain_writers():
    import glob
    import os
    codes = set()
    for f in sorted(glob.glob(os.path.join(T.REPO, "src", "*.c"))):
        if os.path.basename(f) in EXCLUDED_SRC:
            continue
        text = T.strip_comments(open(f, errors="replace").read())
        funcs = enclosing_functions(text)
        for m in DOMAIN_WRITE.finditer(text):
            # only the connection object's field (other structures have a `domain` member too)
            frag = m.group(0)
            if not re.search(r"\bconn->domain", frag):
                continue
            fn = None
            for a, b, nm in funcs:
                if a <= m.start() <= b:
                    fn = nm
            where = (os.path.basename(f), fn)
            codes.add({("conn.c", "_conn_connect"): 1, ("conn.c", "_conn_reset"): 2}.get(where, 9))
    return sorted(codes)


def generate():
    text = preprocess()
    body = func_body(text, r"tls_t \*\s*tls_new\s*\(\s*xmpp_conn_t \*\s*conn\s*\)")
    m = re.search(r"tls->ssl\s*=\s*SSL_new\s*\(", body)
    if not m:
        raise T.TranslateError("SSL_new call not found in tls_new")
    main_depth = body[:m.start()].count("{") - body[:m.start()].count("}")
    param_is_ssl = re.search(r"\bparam\s*=\s*SSL_get0_param\s*\(\s*tls->ssl\s*\)", body) is not None

    vcalls = []
    for pos, name, args in calls(body, ["SSL_set_verify", "SSL_CTX_set_verify"]):
        if len(args) != 3:
            raise T.TranslateError("unexpected %s arity" % name)
        tgt_ok = args[0].replace(" ", "") in ("tls->ssl", "tls->ssl_ctx")
        vcalls.append((guard_of(body, pos, main_depth) if tgt_ok else 9, int_expr(args[1]), cb_code(args[2])))
    # any verify-mode call elsewhere in the file would escape the model
    own = text[text.find("struct _tls {"):]      # skip the declarations of the included headers
    total = len(calls(own, ["SSL_set_verify", "SSL_CTX_set_verify", "SSL_set_verify_result", "SSL_CTX_set_cert_verify_callback"]))
    if total != len(vcalls):
        vcalls.append((9, 9999, 9))

    hcalls = []
    for pos, name, args in calls(body, ["X509_VERIFY_PARAM_set_hostflags", "SSL_set_hostflags"]):
        tgt = args[0].replace(" ", "")
        tgt_ok = (tgt == "param" and param_is_ssl) or tgt == "tls->ssl"
        hcalls.append((guard_of(body, pos, main_depth) if tgt_ok else 9, int_expr(args[1])))
    ncalls = []
    for pos, name, args in calls(body, ["X509_VERIFY_PARAM_set1_host", "SSL_set1_host", "X509_VERIFY_PARAM_add1_host", "SSL_add1_host"]):
        tgt = args[0].replace(" ", "")
        tgt_ok = (tgt == "param" and param_is_ssl) or tgt == "tls->ssl"
        name_ok = args[1].replace(" ", "") == "conn->domain"
        len_ok = len(args) < 3 or int_expr(args[2]) == 0
        replaces = name in ("X509_VERIFY_PARAM_set1_host", "SSL_set1_host")
        ncalls.append((guard_of(body, pos, main_depth) if tgt_ok else 9, 1 if (name_ok and len_ok and replaces) else 0))
    app = re.search(r"SSL_set_ex_data\s*\(\s*tls->ssl\s*,\s*0\s*,\s*\(\s*char \*\s*\)\s*\(?\s*conn\s*\)?\s*\)", body) is not None

    vbody = func_body(text, r"static int _tls_verify\s*\(\s*int preverify_ok\s*,\s*X509_STORE_CTX \*\s*x509_ctx\s*\)")
    handler_ret = re.search(r"\bint ret\s*=\s*conn->certfail_handler\s*\(", vbody) is not None
    shape = []
    for rm in re.finditer(r"(?<![\w])return\s+([^;]+);", vbody):
        val = rm.group(1).strip()
        if val == "ret" and handler_ret:
            rv = 100
        else:
            rv = int_expr(val)
        pre = vbody[:rm.start()].rstrip()
        blk = pre
        # `if (c) return x;`  or  `if (c) { ...; return x; }`
        g = None
        c = if_cond_before(pre)
        if c is None:
            # enclosing block
            depth = 0
            i = len(pre) - 1
            while i >= 0:
                if pre[i] == "}":
                    depth += 1
                elif pre[i] == "{":
                    if depth == 0:
                        break
                    depth -= 1
                i -= 1
            if i >= 0:
                blk = pre[:i]
                t = blk.rstrip()
                if t.endswith(")"):
                    o = match_back(t, len(t) - 1, "(", ")")
                    if o >= 0 and re.search(r"(^|[^\w])if\s*$", t[:o]):
                        g = t[o + 1:len(t) - 1].replace(" ", "")
                if g is None:
                    g = "?"
            else:
                g = ""          # top level of the function: the final return
        else:
            t = pre.rstrip()
            o = match_back(t, len(t) - 1, "(", ")")
            g = t[o + 1:len(t) - 1].replace(" ", "")
        code = {"preverify_ok==1": 1, "!conn->certfail_handler": 2, "conn->certfail_handler==((void*)0)": 2,
                "!tlscert": 3, "": 0}.get(g, 9)
        shape.append((code, rv))

    # which certificate reaches the user's handler
    acc = 9
    am = re.search(r"X509 \*\s*err_cert\s*=\s*(\w+)\s*\(\s*x509_ctx\s*\)", vbody)
    conv = re.search(r"tlscert\s*=\s*_x509_to_tlscert\s*\(\s*conn->ctx\s*,\s*err_cert\s*\)", vbody) is not None
    handed = re.search(r"conn->certfail_handler\s*\(\s*tlscert\s*,", vbody) is not None
    if am and conv and handed and len(re.findall(r"\berr_cert\s*=", vbody)) == 1:
        acc = {"X509_STORE_CTX_get_current_cert": 1, "X509_STORE_CTX_get0_cert": 2}.get(am.group(1), 9)
    proceed = failure_reaction("src/auth.c", r"static int _handle_proceedtls_default\s*\([^)]*\)",
                               r"conn_tls_start ?\( ?conn ?\) ?== ?0", True)
    legacy = failure_reaction("src/conn.c", r"void conn_established\s*\(\s*xmpp_conn_t \*\s*conn\s*\)",
                              r"conn_tls_start ?\( ?conn ?\) ?!= ?0", False)

    conn_c = re.sub(r"\s+", " ", T.strip_comments(T.read_src("src/conn.c")))
    setter = func_body(conn_c, r"void xmpp_conn_set_certfail_handler\s*\([^)]*\)").replace(" ", "")
    setter_ok = setter == "conn->certfail_handler=hndl;"
    time_calls = len(calls(own, ["X509_VERIFY_PARAM_set_time", "X509_STORE_CTX_set_time", "X509_VERIFY_PARAM_set_flags",
                                 "X509_VERIFY_PARAM_clear_flags", "X509_STORE_set_flags", "X509_STORE_CTX_set_flags",
                                 "SSL_CTX_set1_param", "SSL_set1_param", "X509_STORE_CTX_set0_param", "X509_STORE_set1_param"]))
    cts = func_body(conn_c, r"int conn_tls_start\s*\(\s*xmpp_conn_t \*\s*conn\s*\)")
    sec_writes = re.findall(r"->secured\s*(?:[-+|&^]?=(?!=)|\+\+|--)", cts)
    sec_ok = (len(sec_writes) == 1 and
              re.search(r"if \( ?tls_start ?\( ?conn->tls ?\) ?\) ?\{ ?conn->secured = 1; ?\}", cts) is not None)

    out = T.HEADER % "src/tls_openssl.c (through gcc -E), src/auth.c, src/conn.c"
    out += "(* (guard, mode, callback) of every SSL_set_verify / SSL_CTX_set_verify call in tls_new, in order *)\n"
    out += "Definition tls_verify_calls : list (Z * Z * Z) := [%s].\n\n" % "; ".join("(%d, %d, %d)" % c for c in vcalls)
    out += "(* (guard, flags) of every host-flags call *)\n"
    out += "Definition tls_hostflags_calls : list (Z * Z) := [%s].\n\n" % "; ".join("(%d, %d)" % c for c in hcalls)
    out += "(* (guard, 1 iff the reference identity is conn->domain) of every set-host call *)\n"
    out += "Definition tls_host_calls : list (Z * Z) := [%s].\n\n" % "; ".join("(%d, %d)" % c for c in ncalls)
    out += "Definition tls_app_data_is_conn : bool := %s.\n\n" % ("true" if app else "false")
    out += "(* (guard, value) of every return statement of _tls_verify, in order *)\n"
    out += "Definition tls_verify_shape : list (Z * Z) := [%s].\n\n" % "; ".join("(%d, %d)" % c for c in shape)
    out += "(* the certificate _tls_verify hands to the user's handler: 1 = X509_STORE_CTX_get_current_cert *)\n"
    out += "Definition tls_verify_cert_accessor : Z := %d.\n\n" % acc
    out += "(* what the callers do when conn_tls_start failed *)\n"
    out += "Definition tls_proceed_failure_calls : list Z := [%s].\n" % "; ".join(str(c) for c in proceed)
    out += "Definition tls_legacy_failure_calls : list Z := [%s].\n\n" % "; ".join(str(c) for c in legacy)
    out += "Definition tls_set_handler_unconditional : bool := %s.\n" % ("true" if setter_ok else "false")
    out += "Definition tls_time_overrides : Z := %d.\n" % time_calls
    out += "Definition tls_secured_only_after_start : bool := %s.\n\n" % ("true" if sec_ok else "false")
    out += "(* the functions that write conn->domain: 1 = _conn_connect, 2 = _conn_reset, 9 = any other *)\n"
    out += "Definition tls_domain_written_in : list Z := [%s].\n" % "; ".join(str(c) for c in domain_writers())
    return out
