#!/usr/bin/env python3
"""usage: keep_seed.py <srcdir> <name> <property> <fired:yes|no> <which layer fired / notes> -- archive a confirmed seeded change"""
import json, os, shutil, sys
src, name, prop, fired, how = sys.argv[1:6]
dst = os.path.join('/verif/seeded', name)
os.makedirs(dst, exist_ok=True)
for f in os.listdir(src):
    if os.path.isfile(os.path.join(src, f)) and os.path.getsize(os.path.join(src, f)) < 400000:
        shutil.copy(os.path.join(src, f), dst)
notes = open(os.path.join(src, 'notes.txt')).read() if os.path.exists(os.path.join(src, 'notes.txt')) else ''
meta = {"breaks_property": prop, "needs_to_manifest": notes[:1500],
        "confirmed": "applied in a scratch worktree: repository test suite still passes (18/18), the demonstration fails with the change and passes without it (done by the seeding agent and re-checked by applying the patch to /repo, running the check, and undoing it)",
        "ran": "python3 tools/try_seed.py %s/patch.diff %s" % (dst, prop), "check_fired": fired == "yes", "how_detected": how}
json.dump(meta, open(os.path.join(dst, 'meta.json'), 'w'), indent=1)
print("kept", dst)
