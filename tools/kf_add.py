#!/usr/bin/env python3
"""usage: kf_add.py <property> <id> <status fixed|known> <commit|-> <what> <witness>"""
import json, sys
prop, fid, status, commit, what, witness = sys.argv[1:7]
k = json.load(open('known_findings.json'))
k['findings'] = [f for f in k['findings'] if f['id'] != fid]
e = {"property": prop, "id": fid, "status": status, "what": what, "witness": witness}
if status == "fixed":
    e["commit"] = commit
    e["line"] = "fixed: property=%s %s %s" % (prop, commit, what)
else:
    e["always_report"] = True
k['findings'].append(e)
json.dump(k, open('known_findings.json', 'w'), indent=1)
