#!/usr/bin/env python3
"""usage: manifest_add.py <ID> <design_ref> <technique> <level text> <level note>  -- adds/updates a check entry"""
import json, sys
pid, ref, tech, text, note = sys.argv[1:6]
m = json.load(open('MANIFEST.json'))
m['checks'] = [c for c in m['checks'] if c['property_id'] != pid]
m['checks'].append({"property_id": pid, "quick_cmd": "./check %s --tier quick" % pid, "thorough_cmd": "./check %s --tier thorough" % pid,
  "evidence_file": "evidence/%s.json" % pid, "replay_cmd_template": "./check %s --replay {path}" % pid, "engine": "coq-proof+correspondence",
  "level_claimed": {"category": "proof", "text": text, "design_ref": ref}, "level_note": note, "technique": tech})
m['checks'].sort(key=lambda c: c['property_id'])
m['not_applicable'] = [n for n in m.get('not_applicable', []) if n['property_id'] != pid]
for e in m['engines']:
    e['serves_properties'] = sorted(c['property_id'] for c in m['checks'])
json.dump(m, open('MANIFEST.json', 'w'), indent=1)
