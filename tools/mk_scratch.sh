#!/bin/sh
# usage: mk_scratch.sh <dir>  -- scratch git worktree of /repo (HEAD) that can run the repository's test suite
set -e
D="$1"
git -C /repo worktree add -q --detach "$D" HEAD 2>/dev/null || true
cd /repo
for f in configure Makefile.in aclocal.m4 compile config.guess config.sub depcomp install-sh ltmain.sh missing test-driver; do
  [ -e "$f" ] && cp -p "$f" "$D/" || true
done
cp -rp m4/. "$D/m4/" 2>/dev/null || true
cd "$D" && ./configure -q >/dev/null 2>&1 && echo "scratch ready: $D (run: make -C $D check)"
