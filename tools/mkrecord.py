#!/usr/bin/env python3
"""Generate a Coq Record with one setter per field (plain Gallina, no libraries).
usage: mkrecord.py <RecordName> <ctor> field:type ...   -> prints Coq text"""
import sys


def gen(name, ctor, fields):
    out = "Record %s : Type := %s {\n" % (name, ctor)
    out += ";\n".join("  %s : %s" % (f, t) for f, t in fields)
    out += "\n}.\n\n"
    for i, (f, t) in enumerate(fields):
        args = " ".join("(%s s)" % g if g != f else "v" for g, _ in fields)
        out += "Definition set_%s (v : %s) (s : %s) : %s :=\n  %s %s.\n" % (f, t, name, name, ctor, args)
    return out


if __name__ == "__main__":
    name, ctor = sys.argv[1], sys.argv[2]
    fields = [tuple(a.split(":", 1)) for a in sys.argv[3:]]
    print(gen(name, ctor, fields))
