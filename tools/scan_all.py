#!/usr/bin/env python3
"""Whole-development hygiene scan (every .v under coq/): exit 1 if any forbidden construct is present."""
import sys
sys.path.insert(0, "/verif/tools")
import vlib
bad = vlib.hygiene_scan()
for b in bad:
    print(b)
print("%d problem(s)" % len(bad))
sys.exit(1 if bad else 0)
