#!/usr/bin/env python3
"""usage: try_seed.py <patch> <ID> [<ID> ...]   -- apply a seeded change to /repo, run the quick checks, undo it.
Prints one line per check: FIRED (exit 1 + VIOLATION line) / MISSED, with the VIOLATION line."""
import subprocess, sys
patch, ids = sys.argv[1], sys.argv[2:]
def sh(c): return subprocess.run(c, shell=True, stdout=subprocess.PIPE, stderr=subprocess.STDOUT).stdout.decode()
import fcntl, os
os.makedirs("/verif/build", exist_ok=True)
_lk = open("/verif/build/.seedlock", "a")
fcntl.flock(_lk, fcntl.LOCK_EX)          # wait for running checks / other seed trials
os.environ["VERIF_TRYSEED"] = "1"
st = sh("git -C /repo status --porcelain --untracked-files=no")
assert st.strip() == "", "repo not clean: " + st
r = subprocess.run(["git", "-C", "/repo", "apply", "--3way", patch])
if r.returncode != 0:
    r = subprocess.run(["git", "-C", "/repo", "apply", patch])
    if r.returncode != 0:
        print("PATCH DOES NOT APPLY"); sys.exit(2)
import os, shutil
saved = {}
for i in ids:
    f = "/verif/evidence/%s.json" % i
    if os.path.exists(f):
        saved[f] = open(f, "rb").read()
try:
    for i in ids:
        p = subprocess.run("cd /verif && ./check %s --tier quick" % i, shell=True, stdout=subprocess.PIPE, stderr=subprocess.STDOUT)
        out = p.stdout.decode()
        v = [l for l in out.split("\n") if l.startswith("VIOLATION")]
        det = [l for l in out.split("\n") if "broken:" in l or "property fails" in l or "disagreement" in l][:4]
        print("%s: %s rc=%d %s" % (i, "FIRED" if (p.returncode == 1 and v) else "MISSED", p.returncode, v[0] if v else ""))
        for d in det: print("     " + d.strip()[:260])
        if p.returncode != 0 and not v:
            print("     -- no VIOLATION line; tail of output:")
            for l in out.split("\n")[-12:]: print("     | " + l[:300])
finally:
    sh("git -C /repo reset -q --hard")
    for f, b in saved.items():          # the evidence of a seeded run is not evidence about /repo
        open(f, "wb").write(b)
    print("repo restored:", sh("git -C /repo status --porcelain --untracked-files=no").strip() == "")
