#!/usr/bin/env python3
"""Shared machinery for the /verif checks (see DESIGN.md sections 2 and 3).

Layers of every check:
  1. translator + Coq build of Properties_<id>.vo (theorems, Print Assumptions, hygiene scan)
  2. implementation built from /repo's working tree (ASan+UBSan, -DSTROPHE_LIBSTROPHE_VERIF)
     and the extracted OCaml model, run on the same cases (correspondence)
  3. the property oracle on the implementation (search for a concrete failing input)
"""
import fcntl
import glob
import hashlib
import json
import os
import random
import re
import shutil
import subprocess
import sys
import time

ROOT = os.path.dirname(os.path.dirname(os.path.abspath(__file__)))
REPO = os.environ.get("VERIF_REPO", "/repo")
BUILD = os.path.join(ROOT, "build")
COQ = os.path.join(ROOT, "coq")
NCPU = os.cpu_count() or 4
GUARD = "STROPHE_LIBSTROPHE_VERIF"

sys.path.insert(0, os.path.join(ROOT, "tools"))
import translate  # noqa: E402

ALLOWED_AXIOMS = {
    # standard-library axioms that libraries may pull in (named in the trusted base)
    "functional_extensionality_dep", "FunctionalExtensionality.functional_extensionality_dep",
    "proof_irrelevance", "ProofIrrelevance.proof_irrelevance",
    "Eqdep.Eq_rect_eq.eq_rect_eq", "eq_rect_eq", "JMeq_eq", "JMeq.JMeq_eq",
    "Classical_Prop.classic", "classic", "propositional_extensionality",
}

TRUSTED_BASE = [
    "Coq 8.16.1 kernel (coqc; vm_compute used, native_compute not used)",
    "tools/translate.py (C tables/constants -> coq/Gen/*.v)",
    "Coq extraction with ExtrOcamlBasic only (its Extract Inductive bool/option/unit/list/prod/sumbool/sumor and Extract Inlined Constant andb => (&&), orb => (||); no directive of our own); OCaml 4.13.1",
    "correspondence harness: gcc 12 ASan/UBSan build of /repo working tree, harness/c drivers, canonicalisers in checks/*.py",
    "control flow of the C functions is modelled by hand (coq/Model) and tied by the correspondence run, not verified",
]


class BuildError(Exception):
    pass


def sh(cmd, cwd=None, timeout=3600, env=None, input=None):
    e = dict(os.environ)
    if env:
        e.update(env)
    p = subprocess.run(cmd, cwd=cwd, shell=isinstance(cmd, str), stdout=subprocess.PIPE,
                       stderr=subprocess.STDOUT, timeout=timeout, env=e, input=input)
    return p.returncode, p.stdout.decode("utf-8", "replace")


class Lock:
    def __init__(self, name):
        os.makedirs(BUILD, exist_ok=True)
        self.path = os.path.join(BUILD, name + ".lock")

    def __enter__(self):
        self.f = open(self.path, "w")
        fcntl.flock(self.f, fcntl.LOCK_EX)
        return self

    def __exit__(self, *a):
        fcntl.flock(self.f, fcntl.LOCK_UN)
        self.f.close()


# --------------------------------------------------------------------------------------
# implementation build
# --------------------------------------------------------------------------------------
EXCLUDE_SRC = {"tls_dummy.c", "tls_gnutls.c", "tls_schannel.c", "parser_libxml2.c",
               "compression_dummy.c", "snprintf.c"}
IMPL_DEFS = ["-DHAVE_STDINT_H=1", "-DHAVE_CLOCK_GETTIME=1", "-DHAVE_SNPRINTF=1", "-DHAVE_VSNPRINTF=1",
             "-DHAVE_VA_COPY=1", "-DHAVE_GETRANDOM=1", "-DHAVE_ZLIB=1", "-DLIBXMPP_VERSION_MAJOR=0",
             "-DLIBXMPP_VERSION_MINOR=14", "-D" + GUARD]
SAN = ["-fsanitize=address,undefined", "-fno-sanitize-recover=all", "-fno-omit-frame-pointer"]
IMPL_LIBS = ["-lexpat", "-lssl", "-lcrypto", "-lz", "-lresolv"]


def repo_hash():
    h = hashlib.sha256()
    files = sorted(glob.glob(os.path.join(REPO, "src", "*.[ch]"))) + [os.path.join(REPO, "strophe.h")]
    for f in files:
        h.update(f.encode())
        with open(f, "rb") as fh:
            h.update(fh.read())
    h.update(" ".join(IMPL_DEFS + SAN).encode())
    return h.hexdigest()[:16]


def build_impl():
    """Compile /repo/src into build/impl/<hash>/ (objects + libstrophe_v.a). Returns the dir."""
    hv = repo_hash()
    d = os.path.join(BUILD, "impl", hv)
    lib = os.path.join(d, "libstrophe_v.a")
    with Lock("impl"):
        if os.path.exists(lib):
            return d
        # drop older builds (disk is limited), but never one that a concurrent run may still use:
        # keep the 6 most recent trees and anything younger than 45 minutes
        for sub in ("impl", "drv"):
            olds = sorted(glob.glob(os.path.join(BUILD, sub, "*")), key=lambda p: os.path.getmtime(p), reverse=True)
            for old in olds[6:]:
                if time.time() - os.path.getmtime(old) > 2700:
                    shutil.rmtree(old, ignore_errors=True)
        os.makedirs(d, exist_ok=True)
        srcs = [s for s in sorted(glob.glob(os.path.join(REPO, "src", "*.c")))
                if os.path.basename(s) not in EXCLUDE_SRC]
        procs = []
        for s in srcs:
            o = os.path.join(d, os.path.basename(s)[:-2] + ".o")
            cmd = ["gcc", "-O1", "-g", "-w"] + SAN + IMPL_DEFS + ["-I" + REPO, "-I" + os.path.join(REPO, "src"),
                                                                  "-c", s, "-o", o]
            procs.append((s, subprocess.Popen(cmd, stdout=subprocess.PIPE, stderr=subprocess.STDOUT)))
        errs = []
        for s, p in procs:
            out = p.communicate()[0].decode("utf-8", "replace")
            if p.returncode != 0:
                errs.append("%s:\n%s" % (s, out))
        if errs:
            shutil.rmtree(d, ignore_errors=True)
            raise BuildError("implementation does not compile:\n" + "\n".join(errs)[:4000])
        objs = sorted(glob.glob(os.path.join(d, "*.o")))
        rc, out = sh(["ar", "rcs", lib] + objs)
        if rc != 0:
            raise BuildError("ar failed: " + out)
    return d


def build_c_driver(name, sources, extra_cflags=(), extra_ldflags=(), exclude_objs=(), use_archive=True):
    """Build harness driver `name` against the current implementation build."""
    impl = build_impl()
    hv = os.path.basename(impl)
    h = hashlib.sha256()
    for s in sources:
        with open(s, "rb") as fh:
            h.update(fh.read())
    for hdr in glob.glob(os.path.join(ROOT, "harness", "c", "*.h")):
        with open(hdr, "rb") as fh:
            h.update(fh.read())
    h.update(" ".join(list(extra_cflags) + list(extra_ldflags) + list(exclude_objs)).encode())
    d = os.path.join(BUILD, "drv", hv)
    os.makedirs(d, exist_ok=True)
    exe = os.path.join(d, "%s-%s" % (name, h.hexdigest()[:10]))
    with Lock("drv-" + name):
        if os.path.exists(exe):
            return exe
        if exclude_objs or not use_archive:
            objs = [o for o in sorted(glob.glob(os.path.join(impl, "*.o")))
                    if os.path.basename(o) not in exclude_objs]
        else:
            objs = [os.path.join(impl, "libstrophe_v.a")]
        cmd = (["gcc", "-O1", "-g", "-w"] + SAN + IMPL_DEFS + list(extra_cflags) +
               ["-I" + REPO, "-I" + os.path.join(REPO, "src"), "-I" + os.path.join(ROOT, "harness", "c")] +
               list(sources) + objs + IMPL_LIBS + list(extra_ldflags) + ["-o", exe + ".tmp"])
        rc, out = sh(cmd, timeout=600)
        if rc != 0:
            raise BuildError("driver %s does not build:\n%s" % (name, out[:4000]))
        os.replace(exe + ".tmp", exe)
    return exe


SIM_WRAPS = ["gettimeofday", "select", "socket", "connect", "fcntl", "getpeername", "getaddrinfo", "freeaddrinfo",
             "send", "recv", "close", "res_query", "setsockopt", "usleep", "getrandom"]


def build_simworld(name="simworld", extra_sources=(), extra_cflags=()):
    """The simulated-world driver: library objects minus tls_openssl.o, harness TLS, ld --wrap."""
    srcs = [os.path.join(ROOT, "harness", "c", "simworld.c")] + list(extra_sources)
    ld = ["-Wl," + ",".join("--wrap=" + w for w in SIM_WRAPS)]
    return build_c_driver(name, srcs, extra_cflags=extra_cflags, extra_ldflags=ld, exclude_objs=("tls_openssl.o",))


# --------------------------------------------------------------------------------------
# Coq
# --------------------------------------------------------------------------------------
FORBIDDEN = re.compile(
    r"\b(Admitted|admit|Axiom|Axioms|Parameter|Parameters|Conjecture|Conjectures|Admit\s+Obligations|"
    r"bypass_check|Unset\s+Guard\s+Checking|Unset\s+Positivity\s+Checking|Unset\s+Universe\s+Checking|"
    r"type-in-type|impredicative-set|native_compute)\b")


def strip_coq_comments(text):
    out = []
    depth = 0
    i = 0
    while i < len(text):
        if text.startswith("(*", i):
            depth += 1
            i += 2
        elif text.startswith("*)", i) and depth > 0:
            depth -= 1
            i += 2
        else:
            if depth == 0:
                out.append(text[i])
            elif text[i] == "\n":
                out.append("\n")
            i += 1
    return "".join(out)


def coq_files():
    fs = []
    for sub in ("Common", "Gen", "Model", "Spec", "Proofs", "Properties", "Extract"):
        fs += sorted(glob.glob(os.path.join(COQ, sub, "*.v")))
    return fs


def dep_closure(pid):
    """The .v files Properties_<pid>.vo and Extract_<pid>.vo depend on (from coq_makefile's .Makefile.d)."""
    dfile = os.path.join(COQ, ".Makefile.d")
    deps = {}
    try:
        txt = open(dfile).read().replace("\\\n", " ")
    except OSError:
        return None
    for line in txt.split("\n"):
        if ":" not in line:
            continue
        lhs, rhs = line.split(":", 1)
        srcs = [x for x in rhs.split() if x.endswith(".vo") or x.endswith(".v")]
        for t in lhs.split():
            if t.endswith(".vo"):
                deps.setdefault(t, set()).update(srcs)
    todo = ["Properties/Properties_%s.vo" % pid, "Extract/Extract_%s.vo" % pid]
    seen = set()
    while todo:
        t = todo.pop()
        if t in seen:
            continue
        seen.add(t)
        for d in deps.get(t, ()):
            if d.endswith(".vo") and not d.startswith("/"):
                todo.append(d)
    files = [os.path.join(COQ, t[:-1]) for t in seen if os.path.exists(os.path.join(COQ, t[:-1]))]
    return files or None


def hygiene_scan(pid=None):
    """Forbidden constructs in the development; Variable/Hypothesis outside a Section.
    With pid: the files the property's theorems and extracted model depend on (what this check vouches for);
    without: every file under coq/ (used by the final whole-development scan, tools/scan_all.py)."""
    bad = []
    files = (dep_closure(pid) if pid else None) or coq_files()
    for f in files + [os.path.join(COQ, "_CoqProject")]:
        with open(f) as fh:
            txt = fh.read()
        code = strip_coq_comments(txt) if f.endswith(".v") else txt
        depth = 0
        for ln, line in enumerate(code.split("\n"), 1):
            m = FORBIDDEN.search(line)
            if m:
                bad.append("%s:%d: %s" % (os.path.relpath(f, ROOT), ln, m.group(0)))
            if re.match(r"\s*Section\s", line):
                depth += 1
            if re.match(r"\s*End\s", line) and depth > 0:
                depth -= 1
            if depth == 0 and re.match(r"\s*(Variable|Variables|Hypothesis|Hypotheses|Context)\b", line):
                bad.append("%s:%d: %s outside Section" % (os.path.relpath(f, ROOT), ln, line.strip()[:40]))
    return bad


def coq_prepare():
    """Run translator and (re)generate the Makefile when the file list changed."""
    tr = translate.run()
    files = [os.path.relpath(f, COQ) for f in coq_files()]
    lst = "\n".join(files)
    stamp = os.path.join(COQ, ".filelist")
    old = open(stamp).read() if os.path.exists(stamp) else None
    if old != lst or not os.path.exists(os.path.join(COQ, "Makefile")):
        rc, out = sh(["coq_makefile", "-f", "_CoqProject", "-o", "Makefile"] + files, cwd=COQ)
        if rc != 0:
            raise BuildError("coq_makefile failed: " + out)
        with open(stamp, "w") as f:
            f.write(lst)
    return tr


def coq_make(targets, keep_going=False, timeout=3000):
    cmd = ["make", "-j%d" % NCPU] + (["-k"] if keep_going else []) + list(targets)
    rc, out = sh(cmd, cwd=COQ, timeout=timeout, env={"TIMED": ""})
    return rc == 0, out


def enclosing_lemma(path, line):
    try:
        lines = open(path).read().split("\n")
    except OSError:
        return None
    for i in range(min(line, len(lines)) - 1, -1, -1):
        m = re.match(r"\s*(?:Local\s+|Global\s+|#\[[^\]]*\]\s*)*(Lemma|Theorem|Corollary|Fact|Remark|Proposition|Example|Definition|Fixpoint|Instance|Program\s+\w+)\s+([\w']+)", lines[i])
        if m:
            return m.group(2)
    return None


def parse_coq_errors(out):
    errs = []
    for m in re.finditer(r'File "([^"]+)", line (\d+), characters [\d-]+:\s*\n(Error:(?:.*\n){0,6})', out):
        f = m.group(1)
        path = os.path.normpath(os.path.join(COQ, f))
        errs.append({"file": os.path.relpath(path, ROOT), "line": int(m.group(2)),
                     "lemma": enclosing_lemma(path, int(m.group(2))),
                     "error": m.group(3).strip()[:400]})
    return errs


def coq_property(pid):
    """Compile Properties_<pid>.vo afresh. Returns dict with obligations/discharged/theorems/broken."""
    with Lock("coq"):
        tr = coq_prepare()
        prop = os.path.join(COQ, "Properties", "Properties_%s.v" % pid)
        vo = prop + "o"
        for ext in ("o", "ok", "os"):
            try:
                os.remove(prop + ext)
            except OSError:
                pass
        t0 = time.time()
        ok, out = coq_make(["Properties/Properties_%s.vo" % pid])
        dt = time.time() - t0
        # make sure everything the extraction needs is built even if a proof broke
        ok_x, out_x = coq_make(["Extract/Extract_%s.vo" % pid], keep_going=True)
        # snapshot the extracted model while holding the lock (another run may regenerate it for another tree)
        snap = os.path.join(BUILD, "extracted", pid, repo_hash())
        shutil.rmtree(snap, ignore_errors=True)
        if ok_x:
            os.makedirs(snap, exist_ok=True)
            for ext in ("ml", "mli"):
                src_f = os.path.join(COQ, "%s_model.%s" % (pid.lower(), ext))
                if os.path.exists(src_f):
                    shutil.copy(src_f, snap)
    src = strip_coq_comments(open(prop).read())
    theorems = re.findall(r"^\s*Theorem\s+([\w']+)", src, re.M)
    res = {"theorems": theorems, "obligations": len(theorems), "discharged": 0, "broken": [],
           "assumptions": {}, "coq_s": round(dt, 2), "translator": tr, "extract_ok": ok_x,
           "extract_log": out_x if not ok_x else ""}
    for name, err in tr.items():
        if err:
            res["broken"].append({"kind": "translator", "name": "Gen_" + name, "detail": err})
    hyg = hygiene_scan(pid)
    for h in hyg:
        res["broken"].append({"kind": "hygiene", "name": h, "detail": "forbidden construct"})
    if not ok:
        errs = parse_coq_errors(out)
        if not errs:
            errs = [{"file": "?", "line": 0, "lemma": None, "error": out[-600:]}]
        for e in errs:
            res["broken"].append({"kind": "proof", "name": e["lemma"] or e["file"], "detail": "%s:%s %s" % (e["file"], e["line"], e["error"])})
        return res
    # parse Print Assumptions output (in file order)
    blocks = re.split(r"(?=Closed under the global context|^Axioms:)", out, flags=re.M)
    reports = [b for b in blocks if b.startswith("Closed under") or b.startswith("Axioms:")]
    printed = re.findall(r"Print\s+Assumptions\s+([\w']+)", src)
    for i, th in enumerate(printed):
        if i >= len(reports):
            res["broken"].append({"kind": "assumptions", "name": th, "detail": "no Print Assumptions output"})
            continue
        rep = reports[i]
        if rep.startswith("Closed under"):
            res["assumptions"][th] = []
        else:
            axs = re.findall(r"^([\w'.]+)\s*:", rep, re.M)
            axs = [a for a in axs if a != "Axioms"]
            res["assumptions"][th] = axs
            notok = [a for a in axs if a not in ALLOWED_AXIOMS and a.split(".")[-1] not in ALLOWED_AXIOMS]
            if notok:
                res["broken"].append({"kind": "assumptions", "name": th, "detail": "depends on " + ", ".join(notok)})
    for th in theorems:
        if th not in printed:
            res["broken"].append({"kind": "assumptions", "name": th, "detail": "no Print Assumptions beneath theorem"})
    bad_names = {b["name"] for b in res["broken"] if b["kind"] == "assumptions"}
    general_break = any(b["kind"] in ("translator", "hygiene", "proof") for b in res["broken"])
    res["discharged"] = 0 if general_break else len([t for t in theorems if t not in bad_names])
    return res


def coqchk_property(pid, timeout=1500):
    """Independent re-check of the compiled property module and everything it depends on."""
    t0 = time.time()
    try:
        rc, out = sh(["coqchk", "-silent", "-o", "-Q", ".", "LV", "LV.Properties.Properties_%s" % pid], cwd=COQ, timeout=timeout)
    except subprocess.TimeoutExpired:
        return {"ok": True, "skipped": "timeout after %ds" % timeout, "axioms": [], "tail": "", "seconds": timeout}
    axioms = re.findall(r"^\s*([\w.']+)\s*$", out.split("Axioms:")[-1], re.M) if "Axioms:" in out else []
    return {"ok": rc == 0, "axioms": axioms[:60], "tail": out[-800:], "seconds": round(time.time() - t0, 1)}


def shrink_list(items, still_fails, max_steps=400):
    """Delta-debugging style minimisation of a list (of bytes, ops, lines ...)."""
    items = list(items)
    steps = 0
    n = 2
    while len(items) >= 2 and steps < max_steps:
        chunk = max(1, len(items) // n)
        reduced = False
        for i in range(0, len(items), chunk):
            cand = items[:i] + items[i + chunk:]
            steps += 1
            if cand and still_fails(cand):
                items = cand
                n = max(n - 1, 2)
                reduced = True
                break
            if steps >= max_steps:
                break
        if not reduced:
            if chunk == 1:
                break
            n = min(len(items), n * 2)
    return items


def build_ocaml_model(pid):
    """Build the OCaml driver around the extracted model of property pid. Returns exe path."""
    low = pid.lower()
    snap = os.path.join(BUILD, "extracted", pid, repo_hash())
    ml = os.path.join(snap, "%s_model.ml" % low)
    mli = os.path.join(snap, "%s_model.mli" % low)
    if not os.path.exists(ml):
        raise BuildError("extracted model %s missing (Extract_%s.v did not compile)" % (ml, pid))
    hx = os.path.join(ROOT, "harness", "ocaml", "hx.ml")
    drv = os.path.join(ROOT, "harness", "ocaml", "%s_driver.ml" % low)
    h = hashlib.sha256()
    for f in (ml, hx, drv):
        with open(f, "rb") as fh:
            h.update(fh.read())
    d = os.path.join(BUILD, "ocaml", low)
    exe = os.path.join(d, "driver-" + h.hexdigest()[:12])
    with Lock("ocaml-" + low):
        if os.path.exists(exe):
            return exe
        shutil.rmtree(d, ignore_errors=True)
        os.makedirs(d)
        shutil.copy(ml, os.path.join(d, "model.ml"))
        if os.path.exists(mli):
            shutil.copy(mli, os.path.join(d, "model.mli"))
        with open(os.path.join(d, "driver.ml"), "w") as f:
            f.write("open Model\n")
            f.write(open(hx).read())
            f.write("\n")
            f.write(open(drv).read())
        srcs = (["model.mli"] if os.path.exists(mli) else []) + ["model.ml", "driver.ml"]
        rc, out = sh(["ocamlfind", "ocamlopt", "-O3", "-w", "-a", "-package", "str", "-linkpkg"] + srcs + ["-o", exe], cwd=d, timeout=600)
        if rc != 0:
            rc, out = sh(["ocamlfind", "ocamlopt", "-w", "-a", "-package", "str", "-linkpkg"] + srcs + ["-o", exe], cwd=d, timeout=600)
        if rc != 0:
            raise BuildError("OCaml model driver does not build:\n" + out[:4000])
    return exe


# --------------------------------------------------------------------------------------
# running line-oriented drivers
# --------------------------------------------------------------------------------------
ASAN_ENV = {"ASAN_OPTIONS": "detect_leaks=0:abort_on_error=0:exitcode=99:allocator_may_return_null=1",
            "UBSAN_OPTIONS": "print_stacktrace=1:halt_on_error=1:exitcode=98"}


def _run_once(exe, lines, timeout, args=(), env=None):
    inp = ("\n".join(lines) + "\n").encode()
    e = dict(os.environ)
    e.update(ASAN_ENV)
    if env:
        e.update(env)
    try:
        p = subprocess.run([exe] + list(args), input=inp, stdout=subprocess.PIPE, stderr=subprocess.PIPE,
                           timeout=timeout, env=e)
        return p.returncode, p.stdout.decode("utf-8", "replace").split("\n"), p.stderr.decode("utf-8", "replace")
    except subprocess.TimeoutExpired as ex:
        out = (ex.stdout or b"").decode("utf-8", "replace").split("\n")
        return -999, out, "TIMEOUT after %ss" % timeout


def run_lines(exe, lines, timeout=120, args=(), env=None, batch=2000, per_case_timeout=20):
    """One output line per input line. A crashing / hanging case yields 'CRASH <summary>' for that line
    (found by bisection) and the rest of the batch is re-run."""
    results = [None] * len(lines)

    def summarise(rc, err):
        m = re.search(r"(ERROR: AddressSanitizer: [^\n]*|runtime error: [^\n]*|TIMEOUT[^\n]*|Assertion[^\n]*failed[^\n]*)", err)
        loc = re.search(r"#\d+ 0x[0-9a-f]+ in (\w+) (/repo[^\s]*|[^\s]*src/[^\s]*)", err)
        s = m.group(1) if m else ("exit %d" % rc)
        if loc:
            s += " in " + loc.group(1) + " " + os.path.basename(loc.group(2))
        return "CRASH " + s.replace("\n", " ")[:300]

    crashes = [0]
    MAX_ISOLATED = 150

    def one(k):
        rc, out, err = _run_once(exe, [lines[k]], per_case_timeout, args, env)
        if out and out[-1] == "":
            out = out[:-1]
        if rc == 0 and len(out) == 1:
            results[k] = out[0]
        else:
            results[k] = summarise(rc, err) if rc != 0 else "CRASH wrong-output-count %d" % len(out)

    def go(lo, hi):
        # drivers print one flushed line per case: the complete lines printed before the process died / hung are the
        # results of the first cases of the chunk; the next case is the suspect, it is run alone (short time limit), and
        # the rest of the chunk is run again.  Linear in the number of crashing cases, no recursion.
        while lo < hi:
            if hi - lo == 1:
                one(lo)
                return
            rc, out, err = _run_once(exe, lines[lo:hi], timeout, args, env)
            if out and out[-1] == "" and rc != -999:
                out = out[:-1]
            if rc == 0 and len(out) == hi - lo:
                results[lo:hi] = out
                return
            done = out[:-1] if rc == -999 else out      # a time-out may cut the last line in the middle
            n = min(len(done), hi - lo - 1)
            results[lo:lo + n] = done[:n]
            one(lo + n)
            lo = lo + n + 1
            crashes[0] += 1
            if crashes[0] >= MAX_ISOLATED and lo < hi:
                # a mass failure: the verdict is settled, isolating thousands more crashing cases only costs time
                for k in range(lo, hi):
                    results[k] = "CRASH not-run (more than %d cases of this shard already crashed)" % MAX_ISOLATED
                return

    i = 0
    while i < len(lines):
        go(i, min(i + batch, len(lines)))
        i += batch
    return results


def run_parallel(exe, lines, nshards=None, **kw):
    """Shard the case list over processes (order preserved)."""
    from concurrent.futures import ThreadPoolExecutor
    nshards = nshards or min(NCPU, max(1, len(lines) // 200))
    if nshards <= 1:
        return run_lines(exe, lines, **kw)
    size = (len(lines) + nshards - 1) // nshards
    parts = [lines[i:i + size] for i in range(0, len(lines), size)]
    with ThreadPoolExecutor(max_workers=nshards) as ex:
        outs = list(ex.map(lambda p: run_lines(exe, p, **kw), parts))
    res = []
    for o in outs:
        res += o
    return res


# --------------------------------------------------------------------------------------
# verdict / evidence
# --------------------------------------------------------------------------------------
def load_known():
    p = os.path.join(ROOT, "known_findings.json")
    if not os.path.exists(p):
        return []
    return json.load(open(p)).get("findings", [])


class Check:
    def __init__(self, pid, tier=None, seed=None):
        self.pid = pid
        self.tier = tier or os.environ.get("VERIF_TIER", "quick")
        if self.tier not in ("quick", "thorough"):
            self.tier = "quick"
        self.seed = int(seed if seed is not None else os.environ.get("VERIF_SEED", "1") or 1)
        self.rng = random.Random(self.seed * 1000003 + sum(map(ord, pid)))
        self.t0 = time.time()
        self.coq = None
        self.broken = []          # proof obligations / translator / hygiene that no longer check
        self.disagreements = []   # correspondence: {case, impl, model, stream}
        self.failures = []        # property fails on the implementation: {case, what, class?}
        self.known_hits = {}      # finding id -> example
        self.evaluations = 0
        self.nontrivial = set()
        self.samples = []
        self.dist = {}
        self.rule = ""
        self.extra = {}
        self.assumptions = []
        self.traces_validated = 0
        self.known = [k for k in load_known() if k.get("property") == pid]
        self.known_preds = {}
        self.coqchk = None

    # -- layer 1
    def prove(self):
        try:
            self.coq = coq_property(self.pid)
        except BuildError as e:
            self.coq = {"theorems": [], "obligations": 1, "discharged": 0, "broken": [{"kind": "proof", "name": "build", "detail": str(e)}],
                        "assumptions": {}, "coq_s": 0, "extract_ok": False}
        self.broken += self.coq["broken"]
        if self.tier == "thorough" and not self.coq["broken"] and os.environ.get("VERIF_NO_COQCHK") != "1":
            self.coqchk = coqchk_property(self.pid)
            if not self.coqchk["ok"]:
                self.broken.append({"kind": "coqchk", "name": "Properties_%s" % self.pid, "detail": self.coqchk["tail"]})
        return self.coq

    def count(self, key, n=1):
        self.dist[key] = self.dist.get(key, 0) + n

    def sample(self, s, limit=8):
        if len(self.samples) < limit:
            self.samples.append(s)

    def disagree(self, stream, case, impl, model):
        self.disagreements.append({"stream": stream, "case": case, "impl": impl, "model": model})

    def fail(self, case, what, stream="oracle", extra=None):
        """The property itself fails on the implementation for this concrete case."""
        rec = {"stream": stream, "case": case, "what": what}
        if extra:
            rec.update(extra)
        for k in self.known:
            if k.get("status") == "known" and self._matches_known(k, rec):
                self.known_hits.setdefault(k["id"], rec)
                return
        self.failures.append(rec)

    def _matches_known(self, k, rec):
        # a known finding names a class of inputs by a predicate registered by the check module
        # (chk.known_preds[finding id] = fn(rec) -> bool); without a predicate nothing is suppressed
        pred = self.known_preds.get(k["id"])
        try:
            return bool(pred and pred(rec))
        except Exception:
            return False

    def write_replay(self, name, obj):
        d = os.path.join(ROOT, "replays")
        os.makedirs(d, exist_ok=True)
        p = os.path.join(d, "%s-%s-seed%d.json" % (self.pid, name, self.seed))
        with open(p, "w") as f:
            json.dump(obj, f, indent=1, default=str)
        return p

    def finish(self):
        wall = time.time() - self.t0
        violations = 0
        lines = []
        for kid, rec in self.known_hits.items():
            k = [x for x in self.known if x["id"] == kid][0]
            lines.append("KNOWN-FINDING: property=%s %s" % (self.pid, k.get("what", kid)))
        # known findings listed in the file are always reported on the unchanged tree
        for k in self.known:
            if k.get("status") == "known" and k["id"] not in self.known_hits and k.get("always_report", True):
                lines.append("KNOWN-FINDING: property=%s %s" % (self.pid, k.get("what", k["id"])))
        if self.failures:
            violations = len(self.failures)
            rec = self.failures[0]
            p = self.write_replay("violation", {"property": self.pid, "kind": "failing-input", "failure": rec,
                                                "all_failures": self.failures[:20],
                                                "broken_obligations": self.broken, "disagreements": self.disagreements[:10]})
            lines.append("VIOLATION property=%s replay=%s" % (self.pid, p))
        elif self.broken or self.disagreements:
            violations = 1
            p = self.write_replay("unproved", {"property": self.pid, "kind": "no-failing-input-found",
                                               "broken_obligations": self.broken,
                                               "disagreements": self.disagreements[:20],
                                               "note": "a proof obligation or the model/implementation correspondence no longer checks; the search found no input on which the property fails on the implementation"})
            lines.append("VIOLATION property=%s replay=%s no-failing-input-found" % (self.pid, p))
        coq = self.coq or {"obligations": 0, "discharged": 0, "theorems": [], "assumptions": {}, "coq_s": 0}
        obligations = max(1, coq["obligations"])
        cov = {
            "obligations": obligations,
            "discharged": coq["discharged"] if coq["obligations"] else 0,
            "checker_cmd": "make -C coq Properties/Properties_%s.vo (coqc 8.16.1; file recompiled on every run; Print Assumptions under every theorem)" % self.pid,
            "trusted_base": TRUSTED_BASE + self.assumptions,
            "theorems": coq["theorems"],
            "axioms_per_theorem": coq["assumptions"],
            "coq_seconds": coq.get("coq_s", 0),
            "evaluations": self.evaluations,
            "distinct_nontrivial": len(self.nontrivial),
            "rule": self.rule,
            "samples": self.samples or ["(no cases run)"],
            "traces_validated_against_impl": self.traces_validated,
            "input_distribution": self.dist,
            "broken_obligations": self.broken,
            "correspondence_disagreements": len(self.disagreements),
            "property_failures_on_impl": len(self.failures),
            "known_findings_hit": sorted(self.known_hits),
            "repo_hash": repo_hash(),
        }
        if self.coqchk:
            cov["coqchk"] = self.coqchk
        cov.update(self.extra)
        ev = {"property_id": self.pid, "tier": self.tier, "seed": self.seed, "level": "proof", "coverage": cov,
              "assumptions": self.assumptions, "wall_s": round(wall, 2), "violations": violations}
        os.makedirs(os.path.join(ROOT, "evidence"), exist_ok=True)
        with open(os.path.join(ROOT, "evidence", "%s.json" % self.pid), "w") as f:
            json.dump(ev, f, indent=1, default=str)
        print("%s tier=%s seed=%d: theorems %d/%d discharged, %d cases (%d distinct non-trivial), %d disagreements, %d failing inputs, %.1fs"
              % (self.pid, self.tier, self.seed, cov["discharged"], obligations, self.evaluations, len(self.nontrivial),
                 len(self.disagreements), len(self.failures), wall))
        for b in self.broken[:10]:
            print("  broken: [%s] %s -- %s" % (b["kind"], b["name"], b["detail"][:300].replace("\n", " ")))
        for d in self.disagreements[:5]:
            print("  disagreement[%s]: case=%s impl=%s model=%s" % (d["stream"], str(d["case"])[:120], str(d["impl"])[:120], str(d["model"])[:120]))
        for fl in self.failures[:5]:
            print("  property fails on implementation: %s :: %s" % (str(fl["case"])[:160], fl["what"][:200]))
        for ln in lines:
            print(ln)
        sys.stdout.flush()
        return 1 if violations else 0


def hexs(bs):
    return bytes(bs).hex()
